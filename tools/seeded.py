#!/usr/bin/env python3
"""Independently seeded breaking changes (written by sub-agents that saw only a
property's text and a scratch worktree).

  seeded.py import <worktree> <n> <id>   copy <worktree>/_seeded/<n> to /verif/seeded/<id>/
  seeded.py verify <id> [--all]          confirm the change on a scratch copy of /repo:
        suite passes with it, demo fails with it, demo passes without it;
        then run the property's check (or all 27 with --all) against the
        patched copy and record which rules fire in meta.json
Scratch copies live under $TMPDIR/bsseed.* and are removed when done."""
import json, os, shutil, subprocess, sys, tempfile, glob

VERIF = "/verif"
REPO = os.environ.get("BSCHECK_REPO", "/repo")
GOBIN = "/opt/veriftools/go1.26.8/bin"

def env():
    e = dict(os.environ)
    e["PATH"] = GOBIN + ":" + e.get("PATH", "")
    e.update(GOTOOLCHAIN="local", GOFLAGS="-mod=mod", GOPROXY="off", GOSUMDB="off", GOWORK="off")
    return e

def sh(cmd, cwd, timeout=900):
    p = subprocess.run(cmd, cwd=cwd, env=env(), capture_output=True, text=True, timeout=timeout)
    return p.returncode, p.stdout + p.stderr

def do_import(wt, n, sid):
    src = os.path.join(wt, "_seeded", str(n))
    dst = os.path.join(VERIF, "seeded", sid)
    os.makedirs(dst, exist_ok=True)
    for f in os.listdir(src):
        if f == "notes.json":
            continue
        shutil.copy(os.path.join(src, f), dst)
    notes = {}
    if os.path.exists(os.path.join(src, "notes.json")):
        notes = json.load(open(os.path.join(src, "notes.json")))
    meta = {"property": notes.get("property"), "summary": notes.get("summary"), "needs": notes.get("needs"),
            "files": notes.get("files"), "demo_cmd": notes.get("demo_cmd"), "agent_verified": notes.get("verified"),
            "origin": "sub-agent given only the property record and a scratch worktree"}
    json.dump(meta, open(os.path.join(dst, "meta.json"), "w"), indent=1)
    print("imported", dst)

def do_verify(sid, run_all):
    d = os.path.join(VERIF, "seeded", sid)
    meta = json.load(open(os.path.join(d, "meta.json")))
    tmp = tempfile.mkdtemp(prefix="bsseed.")
    try:
        work = os.path.join(tmp, "repo")
        shutil.copytree(REPO, work, ignore=shutil.ignore_patterns(".git", "_seeded"))
        demos = [f for f in os.listdir(d) if f.endswith("_test.go")]
        for f in demos:
            shutil.copy(os.path.join(d, f), work)
        run = None
        if meta.get("demo_cmd"):
            import shlex
            run = shlex.split(meta["demo_cmd"])
        else:
            run = ["go", "test", "-count=1", "-vet=off", "."]
        # 1. demo passes without the change
        rc0, out0 = sh(run, work)
        # apply
        rca, outa = sh(["git", "apply", "--whitespace=nowarn", os.path.join(d, "patch.diff")], work)
        if rca != 0:
            rca, outa = sh(["patch", "-p1", "-i", os.path.join(d, "patch.diff")], work)
        ran = {"demo_passes_without_change": rc0 == 0, "patch_applies": rca == 0}
        if rca == 0:
            rcb, outb = sh(["go", "build", "./..."], work)
            ran["compiles"] = rcb == 0
            rc1, out1 = sh(run, work)
            ran["demo_fails_with_change"] = rc1 != 0
            # suite without the demo
            for f in demos:
                os.remove(os.path.join(work, f))
            rc2, out2 = sh(["go", "test", "-count=1", "-vet=off", "./..."], work)
            ran["suite_passes_with_change"] = rc2 == 0
            if rc2 != 0:
                ran["suite_output_tail"] = out2[-600:]
            # checks
            e = env(); e["BSCHECK_REPO"] = work; e["BSCHECK_VERIF"] = os.path.join(tmp, "verif")
            os.makedirs(e["BSCHECK_VERIF"])
            shutil.copy(os.path.join(VERIF, "known-findings.json"), e["BSCHECK_VERIF"])
            props = ["C%02d" % i for i in range(1, 28)] if run_all else [meta["property"]]
            fired, lines = [], []
            for pid in props:
                c = subprocess.run([os.path.join(VERIF, "bin", "bscheck"), "-property", pid], env=e, capture_output=True, text=True)
                for line in c.stdout.splitlines():
                    ls = line.strip()
                    if (ls.startswith("VIOLATION ") and not ls.startswith("VIOLATION property")) or ls.startswith("UNDECIDED "):
                        fired.append(ls.split()[1])
                        lines.append(ls[:300])
            meta["fired"] = sorted(set(fired))
            meta["reports"] = lines[:8]
            meta["checked_properties"] = props
        meta["what_i_ran"] = ran
        ok = ran.get("demo_passes_without_change") and ran.get("demo_fails_with_change") and ran.get("suite_passes_with_change")
        meta["confirmed"] = bool(ok)
        meta["outcome"] = ("caught" if meta.get("fired") else "MISSED") if ok else "not-confirmed"
        json.dump(meta, open(os.path.join(d, "meta.json"), "w"), indent=1)
        print(sid, meta["outcome"], ran, meta.get("fired"))
    finally:
        shutil.rmtree(tmp, ignore_errors=True)

def do_matrix(prop, out_json):
    """Static part only: apply each kept change written against `prop` to a
    scratch copy and run that property's check on it. No tests are run."""
    rows = []
    base = os.path.join(VERIF, "seeded")
    for sid in sorted(os.listdir(base)):
        d = os.path.join(base, sid)
        if not os.path.isdir(d) or not sid.startswith(prop + "-"):
            continue
        tmp = tempfile.mkdtemp(prefix="bsseed.")
        try:
            work = os.path.join(tmp, "repo")
            shutil.copytree(REPO, work, ignore=shutil.ignore_patterns(".git", "_seeded"))
            rca, _ = sh(["git", "apply", "--whitespace=nowarn", os.path.join(d, "patch.diff")], work)
            if rca != 0:
                rca, _ = sh(["patch", "-p1", "-i", os.path.join(d, "patch.diff")], work)
            row = {"id": sid, "patch_applies": rca == 0, "fired": []}
            if rca == 0:
                e = env(); e["BSCHECK_REPO"] = work; e["BSCHECK_VERIF"] = os.path.join(tmp, "verif")
                os.makedirs(e["BSCHECK_VERIF"])
                shutil.copy(os.path.join(VERIF, "known-findings.json"), e["BSCHECK_VERIF"])
                c = subprocess.run([os.path.join(VERIF, "bin", "bscheck"), "-property", prop], env=e, capture_output=True, text=True)
                fired = []
                for line in c.stdout.splitlines():
                    ls = line.strip()
                    if (ls.startswith("VIOLATION ") and not ls.startswith("VIOLATION property")) or ls.startswith("UNDECIDED "):
                        fired.append(ls.split()[1])
                row["fired"] = sorted(set(fired))
            row["status"] = "caught" if row["fired"] else ("MISSED" if row["patch_applies"] else "patch-does-not-apply")
            rows.append(row)
        finally:
            shutil.rmtree(tmp, ignore_errors=True)
    json.dump(rows, open(out_json, "w"), indent=1)
    for r in rows:
        print(r["id"], r["status"], r["fired"])

if __name__ == "__main__":
    if sys.argv[1] == "matrix":
        do_matrix(sys.argv[2], sys.argv[3])
        sys.exit(0)
    if sys.argv[1] == "import":
        do_import(sys.argv[2], sys.argv[3], sys.argv[4])
    elif sys.argv[1] == "verify":
        do_verify(sys.argv[2], "--all" in sys.argv)
