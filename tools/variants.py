#!/usr/bin/env python3
"""Checker validation: apply each seeded variant (one textual edit of /repo's
source) to a scratch copy outside /repo and /verif, make sure it still
compiles, run bscheck on the copy and compare with the expectation:

  kind "bad": the named rule must report a violation/undecided naming the site
  kind "ok" : behaviour-preserving rewrite; the property's check must stay silent

Scratch copies live under $TMPDIR/bsvar.* and are removed as soon as their run
ends. Variants whose `old` text no longer occurs in /repo are skipped and
counted (the tree was edited). Never gates a property verdict."""
import argparse, json, os, shutil, subprocess, sys, tempfile, concurrent.futures as cf

VERIF = os.environ.get("BSCHECK_VERIF_HOME", "/verif")
REPO = os.environ.get("BSCHECK_REPO", "/repo")
GOBIN = "/opt/veriftools/go1.26.8/bin"

def env():
    e = dict(os.environ)
    e["PATH"] = GOBIN + ":" + e.get("PATH", "")
    e.update(GOTOOLCHAIN="local", GOFLAGS="-mod=mod", GOPROXY="off", GOSUMDB="off", GOWORK="off")
    return e

def load():
    out = []
    d = os.path.join(VERIF, "variants")
    for fn in sorted(os.listdir(d)):
        if fn.endswith(".json"):
            with open(os.path.join(d, fn)) as f:
                for v in json.load(f):
                    v["_file"] = fn
                    out.append(v)
    return out

def run_one(v, run_tests):
    res = {"name": v["name"], "kind": v["kind"], "property": v["property"], "expect": v.get("expect", "")}
    tmp = tempfile.mkdtemp(prefix="bsvar.")
    try:
        dst = os.path.join(tmp, "repo")
        shutil.copytree(REPO, dst, ignore=shutil.ignore_patterns(".git"))
        for ed in v["edits"]:
            p = os.path.join(dst, ed["file"])
            s = open(p).read()
            if s.count(ed["old"]) < 1:
                res["status"] = "skipped"; res["why"] = "old text not found in " + ed["file"]
                return res
            s = s.replace(ed["old"], ed["new"], ed.get("count", 1))
            open(p, "w").write(s)
        b = subprocess.run(["go", "build", "./..."], cwd=dst, env=env(), capture_output=True, text=True)
        if b.returncode != 0:
            res["status"] = "nocompile"; res["why"] = b.stderr[-400:]
            return res
        if run_tests:
            t = subprocess.run(["go", "test", "-count=1", "-vet=off", "./..."], cwd=dst, env=env(), capture_output=True, text=True)
            res["tests_pass"] = t.returncode == 0
        e = env(); e["BSCHECK_REPO"] = dst; e["BSCHECK_VERIF"] = os.path.join(tmp, "verif")
        os.makedirs(e["BSCHECK_VERIF"])
        kf = os.path.join(VERIF, "known-findings.json")
        if os.path.exists(kf):
            shutil.copy(kf, e["BSCHECK_VERIF"])
        props = v["property"] if isinstance(v["property"], list) else [v["property"]]
        fired = []
        out_all = ""
        for pid in props:
            c = subprocess.run([os.path.join(VERIF, "bin", "bscheck"), "-property", pid], env=e, capture_output=True, text=True)
            out_all += c.stdout
            for line in c.stdout.splitlines():
                ls = line.strip()
                if ls.startswith("VIOLATION ") and " C" in ls and not ls.startswith("VIOLATION property"):
                    fired.append(ls.split()[1])
                elif ls.startswith("UNDECIDED "):
                    fired.append(ls.split()[1])
        res["fired"] = sorted(set(fired))
        if v["kind"] == "bad":
            exp = v["expect"] if isinstance(v["expect"], list) else [v["expect"]]
            res["status"] = "caught" if any(x in fired for x in exp) else ("caught-other" if fired else "MISSED")
        else:
            res["status"] = "silent" if not fired else "FALSE-ALARM"
        if res["status"] in ("MISSED", "FALSE-ALARM"):
            res["output"] = out_all[-1500:]
        return res
    finally:
        shutil.rmtree(tmp, ignore_errors=True)

def main():
    ap = argparse.ArgumentParser()
    ap.add_argument("--property")
    ap.add_argument("--kind")
    ap.add_argument("--name")
    ap.add_argument("--jobs", type=int, default=6)
    ap.add_argument("--tests", action="store_true")
    ap.add_argument("--json")
    ap.add_argument("--nobuild", action="store_true")
    a = ap.parse_args()
    if not a.nobuild:
        b = subprocess.run(["go", "build", "-o", os.path.join(VERIF, "bin", "bscheck"), "."], cwd=os.path.join(VERIF, "checker"), env=env(), capture_output=True, text=True)
        if b.returncode != 0:
            print("checker build failed:\n" + b.stderr); sys.exit(2)
    vs = load()
    def want(v):
        props = v["property"] if isinstance(v["property"], list) else [v["property"]]
        if a.property and a.property not in props: return False
        if a.kind and v["kind"] != a.kind: return False
        if a.name and a.name not in v["name"]: return False
        return True
    vs = [v for v in vs if want(v)]
    results = []
    with cf.ThreadPoolExecutor(max_workers=a.jobs) as ex:
        for r in ex.map(lambda v: run_one(v, a.tests), vs):
            results.append(r)
            extra = ""
            if "tests_pass" in r: extra = " tests_pass=%s" % r["tests_pass"]
            print("%-12s %-4s %-40s expect=%s fired=%s%s %s" % (r["status"], r["kind"], r["name"], r.get("expect"), r.get("fired"), extra, r.get("why", "")))
            if "output" in r: print(r["output"])
    bad = [r for r in results if r["status"] in ("MISSED", "FALSE-ALARM", "nocompile")]
    if a.json:
        json.dump(results, open(a.json, "w"), indent=1)
    print("variants: %d run, %d caught/silent, %d skipped, %d problems" % (len(results), sum(r["status"] in ("caught", "silent", "caught-other") for r in results), sum(r["status"] == "skipped" for r in results), len(bad)))
    sys.exit(1 if bad else 0)

main()
