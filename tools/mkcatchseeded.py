#!/usr/bin/env python3
"""Rewrites only the 'Independently seeded changes' section of CATCHES.md from
/verif/seeded/*/meta.json (the variant section needs tools/mkcatchtable.py, ~10 min)."""
import glob, json, os
V = "/verif"
lines = open(os.path.join(V, "CATCHES.md")).read().split("\n")
hdr = "## Independently seeded changes (sub-agents)"
if hdr in lines:
    lines = lines[:lines.index(hdr)]
out = lines + [hdr, "", "| id | property | what it does | needs | reported by | outcome |", "|---|---|---|---|---|---|"]
for m in sorted(glob.glob(os.path.join(V, "seeded", "*", "meta.json"))):
    d = json.load(open(m))
    out.append("| %s | %s | %s | %s | %s | %s |" % (os.path.basename(os.path.dirname(m)), d.get("property"), (d.get("summary") or "").replace("|", "/"), (d.get("needs") or "").replace("|", "/"), " ".join(d.get("fired", [])), d.get("outcome", "")))
open(os.path.join(V, "CATCHES.md"), "w").write("\n".join(out) + "\n")
print(len(out), "lines")
