#!/usr/bin/env python3
"""Behaviour-preserving refactors written by sub-agents that saw only a
property record: the false-alarm side of checker validation.

  refactors.py import <worktree> <n> <id>   copy <worktree>/_refactor/<n> to /verif/refactors/<id>
  refactors.py verify <id> [--notests]      apply to a scratch copy, build, run the suite, run ALL 27 checks;
                                            any VIOLATION/UNDECIDED line is an alarm on code where the properties hold
Scratch copies live under $TMPDIR/bsref.* and are removed when done."""
import json, os, shutil, subprocess, sys, tempfile

VERIF = "/verif"
REPO = os.environ.get("BSCHECK_REPO", "/repo")
GOBIN = "/opt/veriftools/go1.26.8/bin"

def env():
    e = dict(os.environ)
    e["PATH"] = GOBIN + ":" + e.get("PATH", "")
    e.update(GOTOOLCHAIN="local", GOFLAGS="-mod=mod", GOPROXY="off", GOSUMDB="off", GOWORK="off")
    return e

def sh(cmd, cwd, e=None):
    p = subprocess.run(cmd, cwd=cwd, env=e or env(), capture_output=True, text=True)
    return p.returncode, p.stdout + p.stderr

def do_import(wt, n, rid):
    src = os.path.join(wt, "_refactor", str(n))
    dst = os.path.join(VERIF, "refactors", rid)
    os.makedirs(dst, exist_ok=True)
    shutil.copy(os.path.join(src, "patch.diff"), dst)
    notes = {}
    if os.path.exists(os.path.join(src, "notes.json")):
        try:
            notes = json.load(open(os.path.join(src, "notes.json")))
        except Exception as ex:
            notes = {"summary": "notes.json unreadable: %s" % ex}
    meta = {"property": notes.get("property"), "summary": notes.get("summary"), "technique": notes.get("technique"),
            "files": notes.get("files"), "why_equivalent": notes.get("why_equivalent"),
            "origin": "sub-agent given only the property record and a scratch worktree, asked for a behaviour-preserving refactor"}
    json.dump(meta, open(os.path.join(dst, "meta.json"), "w"), indent=1)
    print("imported", dst)

def do_verify(rid, tests=True):
    d = os.path.join(VERIF, "refactors", rid)
    meta = json.load(open(os.path.join(d, "meta.json")))
    tmp = tempfile.mkdtemp(prefix="bsref.")
    try:
        work = os.path.join(tmp, "repo")
        shutil.copytree(REPO, work, ignore=shutil.ignore_patterns(".git", "_seeded", "_refactor"))
        rca, outa = sh(["git", "apply", "--whitespace=nowarn", os.path.join(d, "patch.diff")], work)
        if rca != 0:
            rca, outa = sh(["patch", "-p1", "-i", os.path.join(d, "patch.diff")], work)
        ran = {"patch_applies": rca == 0}
        alarms = []
        if rca == 0:
            rcb, _ = sh(["go", "build", "./..."], work)
            ran["compiles"] = rcb == 0
            if tests:
                rc2, out2 = sh(["go", "test", "-count=1", "-vet=off", "./..."], work)
                ran["suite_passes"] = rc2 == 0
                if rc2 != 0:
                    ran["suite_output_tail"] = out2[-500:]
            e = env(); e["BSCHECK_REPO"] = work; e["BSCHECK_VERIF"] = os.path.join(tmp, "verif")
            os.makedirs(e["BSCHECK_VERIF"])
            shutil.copy(os.path.join(VERIF, "known-findings.json"), e["BSCHECK_VERIF"])
            procs = []
            for i in range(1, 28):
                pid = "C%02d" % i
                procs.append((pid, subprocess.Popen([os.path.join(VERIF, "bin", "bscheck"), "-property", pid], env=e, stdout=subprocess.PIPE, stderr=subprocess.STDOUT, text=True)))
                if len(procs) >= 6:
                    pid0, p0 = procs.pop(0)
                    out, _ = p0.communicate()
                    alarms += collect(pid0, out)
            for pid0, p0 in procs:
                out, _ = p0.communicate()
                alarms += collect(pid0, out)
        meta["what_i_ran"] = ran
        meta["alarms"] = alarms[:20]
        meta["outcome"] = "silent" if (rca == 0 and not alarms) else ("ALARM" if alarms else "patch-does-not-apply")
        json.dump(meta, open(os.path.join(d, "meta.json"), "w"), indent=1)
        print(rid, meta["outcome"], ran, [a[:160] for a in alarms[:6]])
    finally:
        shutil.rmtree(tmp, ignore_errors=True)

def collect(pid, out):
    res = []
    for line in out.splitlines():
        ls = line.strip()
        if (ls.startswith("VIOLATION ") and not ls.startswith("VIOLATION property")) or ls.startswith("UNDECIDED "):
            res.append("[%s] %s" % (pid, ls[:300]))
    return res

if __name__ == "__main__":
    if sys.argv[1] == "import":
        do_import(sys.argv[2], sys.argv[3], sys.argv[4])
    elif sys.argv[1] == "verify":
        do_verify(sys.argv[2], "--notests" not in sys.argv)
