# Property table for mkmanifest.py (exec'd there). One claim() per property whose
# rules are registered in the checker; everything else stays not_applicable.

TB = "Trusted: go/types + go/ssa (x/tools v0.50.0) and the hand-confirmed rule tables in /verif/checker/rules_*.go; panic edges ignored; function values stored in struct fields assumed to be those assigned in the constructors; functions that are not in the confirmed-tree table (baseline_names.go) are analysed in line at their call sites (helper absorption, DESIGN.md §11), a function with a unique same-signature successor is taken as renamed."

claim("C06",
      "SSA path/event dataflow on handleFlush, its cleanup closure, abortFileWriter, executeMergeGroup and processIngestRequest (ok/fail edges of store calls, non-nil provenance of answered values, mutation-before-validation may-facts)",
      "Static necessary conditions of truthful acknowledgements on every path: each nil answer is an empty batch, an ack-only flush, or follows Close-ok then Update-ok for the file created on that path; each error answer is provably non-nil; each failure exit after CreateFile passes abort/tombstone; abortFileWriter disposes and tombstones on all paths; marshal/size validation precedes any shared-buffer mutation; no Write/Close error of the file-producing functions is dropped or overwritten before it is checked (R5). Does not decide visibility on a fresh engine.",
      TB)

claim("C07",
      "channel-ownership and who-may-call scans over the package + SSA path rules (forceFlush edge, select shape)",
      "FIFO acknowledgement decided through its four structural legs — single sender/receiver of flushChan reached only by plain calls from the actor chain, no go statement in the write-path region, Flush waiters always parked and routed through the queue (the ingest actor answers only its own non-Flush request), blocking enqueue with only flushCtx.Done() as alternative, tail-append and in-order answering. Schedule-independent by construction; does not decide cross-goroutine visibility beyond C06.R1.",
      TB)

claim("C08",
      "SSA path/event dataflow on Stop, IngestRows/Flush, handleFlush and the workers; lock facts; channel-operation scan of the write-path region",
      "Static necessary conditions of Stop's contract: ErrEngineStopped on the stopped edge under the lock, nil return only after the workers-done signal (closed only after wg.Wait, Add(2) before both starts, deferred Done in each worker), deadline armed before the state lock, a direct flushCancel call before every non-nil return (the repaired defect D2), every store call in handleFlush behind the entry ctx.Err() check on flushCtx, every send in the write path abandonable, every answer site of the write path live or dead with the flush context (R5). Timing ('by roughly that deadline') is not decided.",
      TB)

claim("C09",
      "value provenance of channel capacities + select-shape and escape scans (uses of *ingestRequest / flushRequest values)",
      "Boundedness from the shape of the queues: ingestChan capacity is the validated config.IngestBufferSize, flushChan capacity a small constant, both enqueues block with only a Done() alternative, one synchronous consumer and no goroutine per flush, and accepted work (*ingestRequest, flushRequest) is never stored, captured or sent anywhere but the two queues and their handlers. The numeric bound itself is not computed.",
      TB)

claim("C10",
      "SSA path/event dataflow on processIngestRequest and ingestWorker, disjunctive over the shouldFlush flag (tracked-boolean valuations), with comparison normalisation and counter provenance",
      "Trigger wiring: each of the five limits has a non-strict comparison on the matching counter whose true edge always reaches flushBufferedData before return (decided per flag valuation), each counter's only write in processIngestRequest is one self-add inside the per-row loop (row counters +1, both byte counters + the same length-prefixed size), the ticker case leads from elapsed >= MaxBufferedTime to flushBufferedData before the next select, bufferStartTime is set before rows are buffered and reset only at flush. The latency bound (wall clock) is not decided.",
      TB)

claim("C13",
      "SSA path/event dataflow on executeMergeGroup, merge and Merge (ok/fail edges, operand-type discrimination of source vs output tombstones, return-value provenance through closures), lock facts for single-flight",
      "Static necessary conditions of all-or-nothing merging on every path: output pointer only after footer-ok and Close-ok; Update unreachable from a failed group; sources tombstoned only after Update-ok, outputs only after a failure and only on error-returning paths; every failure edge returns (nil, provably non-nil error); stats only when committed or nothing to do; ErrPostCommitCleanup wrapped (%w) only after the commit with tombstone errors; merge only under mergeMu.TryLock with deferred Unlock, ErrMergeInProgress on the false edge. Store atomicity: known finding F1 for FileSystemDataStore.Update.",
      TB + " The fault enumeration itself is not performed.")

claim("C14",
      "lock-discipline dataflow (guarded-by table for MemoryMetaStore), pending/kill failure-edge dataflow over the query region with closure summaries, interface-implementation scan of MetaStore.Update",
      "Schedule-independent necessary conditions of snapshot consistency: MemoryMetaStore.files only under mu, Update one write-locked critical section, snapshot under RLock, no yield with mu possibly held and the iterator yields from one snapshot taken under RLock; every failure edge in the query region (open, row read, filter read/plan, scan, materialise, iterator error) is recorded before return unless the query is cancelled; the merge commits through exactly one Update after which alone sources are removed (C13.R2–R4), stored block lists are never rewritten by readers (R5 = C02.R7), recording is lossless (R4 = C20.R8); every shipped MetaStore.Update consumes both operation lists — known finding F1: FileSystemDataStore.Update ignores writes. Interleavings are not enumerated.",
      TB)

claim("C15",
      "SSA path/event dataflow on renameOnCloseFile.Close/Abort, syncDir, CreateFile, TombstoneFile, the directory-scan iterator and Update; constant evaluation of open flags; string-constant provenance of paths",
      "The publish protocol's ordering and cleanup obligations on every path: rename only after Sync-ok and Close-ok, success only after Rename-ok and directory fsync-ok (the published flag is set only there and never cleared), O_CREATE|O_EXCL on both creates with the reservation first and never left behind, scan yields only parsed .dat files, tombstone/abort remove every artifact. Commit atomicity/durability of Update: known findings F1 (writes ignored) and F2 (no directory fsync after unlink, errors dropped). Crash points are not enumerated (that needs execution).",
      TB + " Assumes os.Rename/fsync semantics of POSIX filesystems.")

claim("C16",
      "value-identity checks on CreateFile/OpenFile (same SSA value reserved, returned and handed to the writer) + the C15 path rules",
      "Structural conformance to the store's specification: the pointer returned is the reserved .dat path, the writer publishes to it from the exclusive .tmp sibling, OpenFile opens exactly the pointer, redraw only on IsExist, plus the shared publish-protocol rules (exclusive creates, rename after sync+close, scan limited to parsed .dat, tombstone/abort remove all artifacts). Call-sequence histories are not explored.",
      TB)

claim("C11",
      "per-iteration must-facts on loop back edges (SSA dataflow), loop-exit classification, value-identity/provenance checks on the copy and merge paths",
      "Content preservation of merging through structural necessary conditions: every scanned row is indexed, length-prefixed from its own length, written and counted before the scan loop's back edge, the loop's other exits are error returns; every group member is loaded and scanned to its end, every merge group is copied or merged, every block and partition is collected/processed; the merged block keeps the grouping partition and the running union of minmax ranges (Min/Max unswapped, no member skipped); copied blocks are verified, written from the very bytes read at their recorded extent, re-indexed row by row, and keep all metadata but their location; the greedy grouping partitions each bucket (R6: seed index counts 0..len(bucket), joins only on the not-yet-grouped edge, every joined index marked before the loop moves on, every seed's group recorded); UpdateMinMaxIndex = (min,max) on every ordering (R5). Multiset equality itself is not decided.",
      TB)

claim("C12",
      "normalised limit-guard edges (within/beyond labels) in the SSA dataflow + accumulator provenance through phis",
      "Guard shape of the layout limits: a block joins a merge group only on the within-edges of both cumulative checks (running total + candidate against MaxRowGroupRows / MaxRowGroupBytes) and the running totals advance by the candidate's own Rows/UncompressedSize; a file joins a group only within MaxFileSize (group size + candidate totalSize, inclusive) and within the per-group and per-operation MaxFilesToMergePerOperation guards; blocks are bucketed by blockMergeKey, which covers partition and the sorted, length-prefixed minmax key set. The inequalities' arithmetic over runtime values is not decided.",
      TB)

claim("C17",
      "go/types struct comparison, composite-literal provenance, flag/compression case-table extraction (E5), SSA ordering dataflow and value-identity checks on the assembly paths",
      "Self-description of written files: fileMetadataJSON mirrors FileMetadata and both footer directions copy every field (FileFilterSectionSize = length of the section written); presence bits and compression cases agree between writer and reader; assembly order body → finish (once) → footer → Close with nothing written after finish and the committed metadata being the footer's object; per block one value serves as bytes written, RowDataSize, offset increment and CRC input, RowDataOffset is taken before the increment, the region offset after the last block, counts from the same buffer; entries are indexed only after the whole batch validated (C06.R4). Byte-level round trips are left to the existing tests.",
      TB)

claim("C18",
      "typestate (seal/mutate) dataflow with interprocedural mutates-parameter summaries, per-iteration must-facts, value-identity checks of ingest wiring",
      "Index coverage: entry sets are never mutated after being sealed; every block appended to a file had its entries merged into the file-level set first (copied blocks: every row re-indexed) and file filters are built after the last block; block filters come from the set that indexed the block's rows; the indexing callback records a field entry per emission and token + field:token per token on both tokenizer paths, and the sized filter adds every entry; rows are grouped under PartitionFunc(row), buffers registered under their own partition, and (min,max) of row[index] feed the row's own buffer unswapped through UpdateMinMaxIndex = (min,max) on every ordering (R6). The walker's enumeration itself is value-level and not decided.",
      TB)

claim("C01",
      "who-may-call/ownership scans, sibling-agreement provenance checks, and abstract interpretation of the prune-level and row-level expression evaluators on all small trees × leaf truth assignments (E5), plus SSA path rules on the pruning points",
      "Structural necessary conditions of 'no false negatives': one shared walker and leaf canonicaliser for indexing and verification (reference enumerator unreachable from production), entry sets written only by the indexing functions and filters built only from them; indexing and verification gate the same fast tokenizer path on the same configured tokenizer and delimiter; the pruning verdict is ≥ the row verdict for every small bloom tree and every leaf assignment, absent filters fail open, the regex field guard is at least as permissive as the compiled regex matcher and tests existence of the condition's own field; files/blocks are skipped only on a negative verdict and a chunk miss is an error; the fast tokenizer's byte classifier covers exactly unicode.IsSpace on its interval partition (R7); entry sets never retain strings aliasing a pooled buffer (C03.R4). Walker/tokenizer value semantics, chunk arithmetic and hashing are not decided.",
      TB + " The abstract interpreter (absint.go) is part of the trusted base: it aborts (undecided) on any branch not determined by the abstract inputs.")

claim("C02",
      "SSA path/event dataflow on the scan loop, flush and deliver (counter domain), channel-ownership scans, abstract interpretation of the prefilter evaluator and the compiled matcher on constant and small trees",
      "Row-level exactness through structure: only rows on the true edge of matchRowBytes reach the batcher, materialised from the same scanned bytes; rowChan has one sender/closer chain; each batch is cleared before hand-off, sent at most once per path and exactly once before a nil return, counted once per send; the matcher's per-row scratch is reset before every walk (R6); no query-side code writes into a block-metadata array it did not allocate (R7); the strict prefilter table (nil/empty/unknown/missing-metadata cases, And = all, Or = any) and the compiled matcher's And/Or/constant semantics hold on every small tree and assignment. Multiset equality against an oracle is not decided.",
      TB)

claim("C03",
      "value provenance of the materialisation argument, identifier-use scan for package unsafe, who-may-call scans, typestate (released-buffer) dataflow, defer-order check",
      "Independence of returned rows (second sentence of the property): rows are materialised from a copying string conversion; package unsafe is confined to unsafeString, called only by indexing and matching, which return only verdicts; no instruction uses a pooled buffer after putScanBuffer on any path (locals kept in memory tracked by cell); the scan's buffer release is deferred before the batch flush's defer and never called directly; the pooled reader is used only by the query scan and filters are decoded by copying; the materialisation region references no package-level reference-typed global (R5); nothing returned is a view of a buffer whose release is deferred (R6). JSON round-trip equality (first sentence) is not decided.",
      TB)

claim("C04",
      "reflect.Kind dispatch-table extraction (E5), order-domain abstract interpretation over all total preorders (E6), dominance check of conversion guards, SSA path rule for NaN",
      "Prefilters never prune a satisfying block, decided where it is structural: numeric classification covers every integer/unsigned/float reflect.Kind (named types; repaired defect D1); EvaluateMinMaxCondition returns true for every ordering of {⊥, Min, Max, ⊤, operands, v} consistent with range construction in which v satisfies the operator (all 10 operators incl. 0–2 element IN/NOT_IN lists, saturation at both extremes, v beyond the int64 range) — exhaustive over that finite domain; EvaluateString/NumericCondition equal the operator's meaning; UpdateMinMaxIndex = (min,max); clampUint64ToInt64 = min(v,⊤); every overflow-capable conversion sits behind range guards, NaN is rejected before rounding, floats index as [Floor, Ceil]; strict prefilter table and And/Or combination by abstract interpretation. Float boundary arithmetic at 2^63 is not decided.",
      TB)

claim("C26",
      "value provenance of the bloom constructor's arguments and who-may-call scan",
      "Sizing provenance only: the sole filter constructor is buildSizedBloomFilter with capacity max(len(entries),1) of the very map it inserts and the rate parameter; all four call chains pass the validated config.BloomFalsePositiveRate; nothing else constructs or fills a filter. The measured false-positive rate is statistical and not decided.",
      TB)

claim("C27",
      "who-may-reference scan over every call site and global reference of the package (with a positive control), field-store provenance of the engine logger",
      "Silence by default: no function of the package references os.Stdout/os.Stderr, fmt.Print*, print/println, package log or slog's package-level logging functions; the logger field is written only by the constructor (config.Logger on its non-nil edge, slog.New(slog.DiscardHandler) otherwise) and every slog call goes through it. Runtime panics and third-party debug output are excluded.",
      TB)

claim("C20",
      "lock-discipline and path/event dataflow on Next/finish/terminate/Close, channel-operation scan of the query region, ordering dataflow on the teardown goroutine",
      "The cursor's terminal state through structure: err is written only under mu on the not-yet-finalized edge with finalized set (first finalizer wins); Next returns false only after finish/terminate or the iterDone test, finish marks iteration done and cancels; Close is sync.Once-guarded, cancels before waiting for done and returns nil; terminate reads errors only after the pipeline stopped and wraps the caller's context error with %w; Results' shared fields are accessed under mu; every channel operation in query goroutines is abandonable (Done() case or default; one named exception); teardown runs in the order fileWorkers.Wait → close(blockJobs) → blockWorkers.Wait → closeAll → markWorkersDone; every context waited on, passed on or stored in a slot by the query's goroutines originates from Results.ctx (R7); recording of failures and block statistics is lossless (R8); only Close/terminate/finish hold the cursor's CancelFunc (R9); Close and terminate return only after having waited for the pipeline (R3). Interleavings are not enumerated.",
      TB)

claim("C21",
      "counter-domain and pending/kill dataflow with closure summaries (handles, references), goroutine/WaitGroup pairing scan, typestate of querySlot, guarded-by table of the handle pool",
      "Release of query resources on every path: exactly one put/discard after each successful acquire (through the deferred health-flag closure or directly), every opened read handle closed or handed to a checked caller, every retain matched by a release or a successful job hand-off whose receiver defers the release first, every query goroutine paired with Add(1)/deferred Done (teardown goroutine excepted by name), every worker deferring slot.release with held tracking the semaphore token, pool fields under mu and no store I/O under the pool lock; inside the pool each handle has exactly one fate (stored idle xor closed, discard closes synchronously, the lent handle leaves the idle set, detached idle sets are closed element by element — closes may go through wrappers proven to close once), and no goroutine is started on the query's call paths outside Query (R3, R6). That a store's Close really frees the handle is assumed.",
      TB)

claim("C22",
      "typestate (slot held/released) dataflow on the filter pass, the block scan, deliver and the file worker; capacity provenance; channel-ownership scan of the semaphore",
      "The concurrency budget through structure: the worker's slot is must-held at every DataStore read site of the query region, released before the blocking row-channel send and before block-job dispatch, success of a delivery only with the slot held again; the semaphore's capacity is the validated MaxQueryConcurrency, only acquire sends on it, only release receives, and every slot is built on the engine-wide semaphore. Counts of in-progress reads under real schedules are not measured.",
      TB)

claim("C23",
      "per-iteration counter dataflow (counter reset on entering a loop iteration), early-exit classification, composite-literal field checks, aggregation-edge checks in Stats",
      "Exactly-once block statistics: one deferred stats record per scan job and no other; in the filter pass every iteration accounts for its block exactly once and every early exit is a cancellation or records all remaining blocks (unread ranges are the whole file before any accounting, blocks[i:] or blocks[i:i+1] for the loop's own index only); skipped/unread entries carry no processed rows/bytes; scan counters advance once per scanned row and feed the scan's entry; Stats counts skipped xor processed, sums per-block values and reports the delivery counter, which advances by len(batch) once per delivered batch (C02.R3). Numeric equality on real data is not decided.",
      TB)

claim("C24",
      "forbid/require reachability rules in the SSA dataflow (may-facts at dispatch and I/O sites), who-may-call/send scans, extent provenance, abstract interpretation (E5) of evaluateBloomFilters against its specification",
      "Effectiveness of pruning: no file-job dispatch from the negative file-level edge or an empty prefilter result; block-filter I/O only with bloom conditions and sections to read; a block whose filters were read is scanned only on the survived edge; row data read only by the block scan fed only from the survivor loop; scan and filter reads use the block's own declared extents after validation; hasSections is a latch over the candidate blocks (R5); both pruning stages receive the one prune query AndBloomQueries(row query, regex guard) (R7); evaluateBloomFilters equals its specification on every small tree × membership × absent-filter mask, so whatever the present filters rule out is disqualified (R6). Request counts on real layouts are left to the existing tests.",
      TB)

claim("C19",
      "range checker: taint from decoded integers and metadata framing fields to allocation sizes and slice bounds, with dominating-guard search and sign analysis through +/− (E7); linear bounds prover with store-resolved loads over the length-prefixed decoders and validators (E8); SSA path rules for verify-before-parse; comparison-table extraction for validate",
      "Clean failure on malformed files through structure: every decoded length / framing field reaching a make, getScanBuffer or slice bound in the read path is bounded in the needed direction(s) by dominating comparisons (framing fields at allocations may take their upper bound from the validated-metadata facts); footer JSON, filter sections and row data are parsed/decompressed only after their CRC checks; ReadFileMetadata returns metadata only after CRC, version and validate; validate and validateFilterSection bound each framing field from below and, by subtraction, from above; planning/validation precedes any filter I/O; decompression is exact-length through io.ReadFull; failures are recorded (C14.R2); in the validators no sum or difference can wrap before it is compared (R8); in BlockRowScanner.Next, parseFilterSection, ReadFileMetadata and planBlockFilterReads every slice bound, index, fixed-width decode and allocation size is a linear consequence of the dominating checks, cursor advances included (R9). Third-party decoders' robustness is not decided; UncompressedSize is outside the quantified framing fields (observation in DESIGN.md).",
      TB)

claim("C25",
      "go/types shape checks of the exported query types, nil-vs-empty comparison scan, abstract interpretation (E5) of the flatten functions, And/Or constructors and builder call sequences, slice-origin (ownership) analysis of child lists",
      "Expression trees and serialization through structure and abstract runs: every exported query type round-trips field for field (exported fields, no json:\"-\", no custom marshalers, omitempty only where nil/empty are indistinguishable — no evaluator compares such a slice with nil); each flatten function inlines exactly the children of same-type, condition-less nodes and keeps every other child in order; And/Or wrap the flattened list; builder sequences (implicit AND at Build, AND with the explicit tree after Match, MatchPrefilter installs the tree) produce the expected trees; every stored Children list is backed by an array allocated in the constructing call (R4: no two trees share mutable child storage). The Field-then-Match discard is a semantic question and not claimed.",
      TB + " Abstract runs cover the listed shapes only.")
