#!/usr/bin/env python3
"""Regenerates /verif/MANIFEST.json from the table below and validates it
against /root/.vp/MANIFEST.schema.json. A property is claimed only when its
rules are registered in the checker (bscheck -property Cnn)."""
import json, os, subprocess, sys

ENV = "PATH=/opt/veriftools/go1.26.8/bin:$PATH GOTOOLCHAIN=local GOFLAGS=-mod=mod GOPROXY=off GOSUMDB=off GOWORK=off"

# id -> (claimed, technique, level text, level note, design ref)
P = {}

def claim(pid, technique, text, note, ref=None):
    P[pid] = dict(claimed=True, technique=technique, text=text, note=note, ref=ref or ("DESIGN.md §4 " + pid))

def na(pid, reason):
    P[pid] = dict(claimed=False, reason=reason)

WIP = "rules designed in DESIGN.md §4 but not yet implemented in the checker; not claimed until they are (no weaker proxy substituted)"

for i in range(1, 28):
    na("C%02d" % i, WIP)

claim("C05",
      "SSA path/event dataflow (must/may sets + {0,1,>=2} counter domain) over the waiter's life cycle; channel ownership scan; lock facts",
      "Static necessary conditions of exactly-once answering, decided on every path of every function a batch's done channel travels through (IngestRows/Flush, ingestWorker, processIngestRequest, flushBufferedData, triggerFlush, flushWorker, handleFlush, sendToChannelsWithContext, Stop): accept⇒enqueued, dequeued⇒handled, answer-or-park count = 1 at every return, parked⇒forwarded whole and never through an array the actor's live list still shares (R4), queued-or-answered count = 1, drains before worker exit, no send on the ingest queue outside the stopped-checked read-lock window, Stop's nil return only with both workers in existence. Not a proof of the behavioural property: liveness and interleavings are not decided.",
      "Trusted: go/types + go/ssa (x/tools v0.50.0) and the rule tables; panics ignored; function values in fields assumed to be the ones assigned in NewBloomSearchEngine.")

def main():
    checks = []
    nas = []
    for pid in sorted(P):
        p = P[pid]
        if not p["claimed"]:
            nas.append({"property_id": pid, "reason": p["reason"]})
            continue
        checks.append({
            "property_id": pid,
            "quick_cmd": "./check.sh %s quick" % pid,
            "thorough_cmd": "./check.sh %s thorough" % pid,
            "evidence_file": "/verif/evidence/%s.json" % pid,
            "replay_cmd_template": "./bin/bscheck -replay {path}",
            "engine": "bscheck",
            "level_claimed": {"category": "other", "text": p["text"], "design_ref": p["ref"]},
            "level_note": p["note"],
            "technique": "static analysis: " + p["technique"],
        })
    m = {
        "version": 1,
        "setup_cmd": "cd /verif/checker && %s go build -o /verif/bin/bscheck ." % ENV,
        "hooks": {
            "guard": "verif",
            "enable": "none needed: the checks are static analyses that read /repo's source (go/packages + go/ssa); nothing in /repo is instrumented and no verif-tagged file exists",
            "baseline_off_cmd": "cd /repo && %s go test -json -vet=off -count=1 -timeout 25m ./..." % ENV.replace("GOSUMDB=off ", ""),
            "source_commits": [],
            "add_only": True,
        },
        "engines": [{
            "name": "bscheck",
            "path": "/verif/checker",
            "serves_properties": [c["property_id"] for c in checks],
            "kind_free_text": "repository-specific static analyser over the type-checked program and SSA form of /repo's working tree: path/event dataflow, ownership scans, lock discipline, table/sibling agreement, order-domain abstract interpretation, range checking",
        }],
        "checks": checks,
        "not_applicable": nas,
        "notes": "Technique family: static analysis only. Every check loads /repo's current working tree on every run and reports a specific construct (function, call site, branch edge, return) per violation. All claims are level 'other': structural necessary conditions of the behavioural property, with what is not decided stated per property in DESIGN.md §4 and in each evidence file. Genuine defects repaired by fix: commits and known findings are listed in /verif/known-findings.json.",
    }
    out = os.path.join(os.path.dirname(os.path.dirname(os.path.abspath(__file__))), "MANIFEST.json")
    json.dump(m, open(out, "w"), indent=1, ensure_ascii=False)
    try:
        import jsonschema
        jsonschema.validate(m, json.load(open("/root/.vp/MANIFEST.schema.json")))
        print("MANIFEST.json valid: %d checks, %d not_applicable" % (len(checks), len(nas)))
    except ImportError:
        print("jsonschema not available in this python; written without validation")

# property table continues in manifest_table.py (kept separate so the prose is easy to edit)
here = os.path.dirname(os.path.abspath(__file__))
tbl = os.path.join(here, "manifest_table.py")
if os.path.exists(tbl):
    exec(open(tbl).read())
main()
