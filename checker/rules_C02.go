package main

import (
	"fmt"
	"go/types"
	"sort"
	"strings"

	"golang.org/x/tools/go/ssa"
)

// C02 — query results are exact at row level.

func init() { register("C02", checkC02) }

func checkC02(w *World, r *Report, tier string) propMeta {
	c02R1(w, r)
	c02R2(w, r)
	c02R3(w, r)
	c02R4(w, r, "C02.R4")
	n := c02R5(w, r, "C02.R5")
	c02R6(w, r)
	c02R7(w, r, "C02.R7")
	return propMeta{
		explanation: fmt.Sprintf("(R1) verify-before-deliver: in the scan loop a row reaches rowBatcher.add only on the true edge of matchRowBytes for the same scanner.Next row, and the delivered map is materializeRow of that same row; (R2) single producer: only Results.deliver sends on rowChan, only rowBatcher.flush calls deliver, only processDataBlock calls add, only markWorkersDone closes rowChan; (R3) each batch handed off once: flush clears the batch before delivering the old slice, deliver performs at most one successful rowChan send per path and exactly one before `return nil`, and counts the batch once per send; (R4) strict prefilter table: nil ⇒ true, nil condition ⇒ true, empty Or ⇒ false, And = all, Or = any, unknown ⇒ false, missing partition/minmax metadata ⇒ false — by abstract interpretation of evaluatePrefilterExpression on constant trees; (R5) the compiled matcher's constants equal the documented ones and, for every small tree (depth ≤ 2) and every truth assignment of its leaves, the row verdict equals the documented And/Or semantics — %d (tree, assignment) cases.", n),
		notDecided:  "Multiset equality against an independent oracle; the index arithmetic of BlockRowScanner.Next (bounds are decided under C19); that matchRowBytes itself implements the documented search semantics on real JSON (value-level).",
	}
}

func c02R1(w *World, r *Report) {
	const rule = "C02.R1"
	r.rule(rule, "verify-before-deliver: rowBatcher.add is reached only on the true edge of matchRowBytes for the row scanner.Next just returned, with materializeRow of that same row", 2)
	fn := fnOrUndecided(w, r, rule, "BloomSearchEngine.processDataBlock")
	if fn == nil {
		return
	}
	nexts := w.callSitesIn(fn, "BlockRowScanner.Next")
	adds := w.callSitesIn(fn, "rowBatcher.add")
	if len(nexts) != 1 || len(adds) == 0 {
		r.undecided(rule, "processDataBlock:anchors", w.pos(fn.Pos()), fmt.Sprintf("scanner.Next sites=%d, batcher.add sites=%d", len(nexts), len(adds)))
		return
	}
	next := nexts[0].(*ssa.Call)
	isRow := func(v ssa.Value) bool {
		e, ok := v.(*ssa.Extract)
		return ok && e.Tuple == next && e.Index == 0
	}
	cl := &Classifier{CallEdge: func(call ssa.Value, outcome string) *Event {
		c, ok := call.(*ssa.Call)
		if !ok {
			return nil
		}
		switch {
		case w.isCallTo(&c.Call, "compiledRowMatcher.matchRowBytes") && isRow(c.Call.Args[1]):
			if outcome == "true" {
				return ev("matched")
			}
			return &Event{May: []string{"rejected"}}
		case w.isCallTo(&c.Call, "materializeRow") && isRow(c.Call.Args[0]) && outcome == "ok":
			return ev("materialized")
		case call == ssa.Value(next) && outcome == "true":
			return (&Event{}).kill("rejected", "matched", "materialized")
		}
		return nil
	}}
	fl := newFlow(w, fn, cl)
	for i, in := range adds {
		c := callOf(in)
		f := fl.Before(in)
		arg := c.Args[1]
		fromMat := false
		if e, ok := arg.(*ssa.Extract); ok && e.Index == 0 {
			if mc, ok := e.Tuple.(*ssa.Call); ok && w.isCallTo(&mc.Call, "materializeRow") && isRow(mc.Call.Args[0]) {
				fromMat = true
			}
		}
		r.check(f.Must("matched") && !f.May("rejected") && f.Must("materialized") && fromMat, rule, fmt.Sprintf("processDataBlock:add#%d", i), w.instrPos(in), "only verified rows, materialised from the verified bytes", fmt.Sprintf("a row can be delivered with verified=%v possibly-rejected=%v materialised-ok=%v from-same-row=%v: bloom false positives (or a different row) would leak into results", f.Must("matched"), f.May("rejected"), f.Must("materialized"), fromMat))
	}
	// the matcher used is the one compiled for this query from the row-level bloom query and the regex query
	q := w.fn("BloomSearchEngine.Query")
	if q != nil {
		okc := false
		for _, in := range w.callSitesIn(q, "compileRowMatcher") {
			c := callOf(in)
			bq := w.path(c.Args[0])
			okc = (strings.Contains(bq, "Bloom") || strings.Contains(bq, "phi(")) && strings.HasPrefix(w.path(c.Args[1]), "call:compileRegexQuery@") && w.path(c.Args[3]) == "p:b.config.Tokenizer"
		}
		r.check(okc, rule, "Query:matcher-from-query", w.pos(q.Pos()), "row matcher compiled from the query's bloom and regex expressions with the engine's tokenizer", "the row matcher is not compiled from the query's own bloom/regex expressions and the configured tokenizer")
	}
}

// c02R6: a row's verdict does not depend on the rows scanned before it: the
// matcher's per-scan scratch (satisfaction vector, collected regex texts) is
// reset on every path before the row is walked.
func c02R6(w *World, r *Report) {
	const rule = "C02.R6"
	r.rule(rule, "verdict independent of earlier rows: compiledRowMatcher.match resets scratch.sat and scratch.regexTexts (every element) before walking the row, on every path", 4)
	fn := fnOrUndecided(w, r, rule, "compiledRowMatcher.match")
	if fn == nil {
		return
	}
	type target struct{ name, path string }
	targets := []target{{"sat", "p:scratch.sat"}, {"regexTexts", "p:scratch.regexTexts"}}
	cl := &Classifier{
		Cond: func(c Cond, taken bool) *Event {
			if c.Op != "<" || c.Y == nil {
				return nil
			}
			for _, t := range targets {
				if isLenOf(w, c.Y, t.path) {
					if taken {
						return (&Event{}).kill("stored:" + t.name)
					}
					return ev("loopdone:" + t.name)
				}
			}
			return nil
		},
		Instr: func(in ssa.Instruction) *Event {
			st, ok := in.(*ssa.Store)
			if !ok {
				return nil
			}
			ia, ok := st.Addr.(*ssa.IndexAddr)
			if !ok {
				return nil
			}
			switch w.path(ia.X) {
			case "p:scratch.sat":
				if b, isC := constBool(st.Val); isC && !b {
					return ev("stored:sat")
				}
			case "p:scratch.regexTexts":
				if sl, ok := st.Val.(*ssa.Slice); ok && sl.Low == nil {
					if n, ok := constInt(sl.High); ok && n == 0 {
						return ev("stored:regexTexts")
					}
				}
			}
			return nil
		},
	}
	fl := newFlow(w, fn, cl)
	walks := w.callSitesIn(fn, "pathWalker.walk")
	if len(walks) != 1 {
		r.undecided(rule, "match:walk", w.pos(fn.Pos()), fmt.Sprintf("expected one walker call, found %d", len(walks)))
		return
	}
	for _, t := range targets {
		f := fl.Before(walks[0])
		r.check(f.Must("loopdone:"+t.name), rule, "match:reset-"+t.name+"-before-walk", w.instrPos(walks[0]), "reset loop completed before the row is walked", "scratch."+t.name+" is not reset on every path before the row is walked: a verdict (or collected regex text) of an earlier row can leak into this row's verdict")
		// the loop body resets each element
		okBody, n := true, 0
		for _, be := range backEdges(fn) {
			b := fn.Blocks[be[0]]
			hdr := b.Succs[be[1]]
			// is this the reset loop of t? its header compares against len(t.path)
			isLoop := false
			if ifi, ok := hdr.Instrs[len(hdr.Instrs)-1].(*ssa.If); ok {
				if cmp, ok := ifi.Cond.(*ssa.BinOp); ok && isLenOf(w, cmp.Y, t.path) {
					isLoop = true
				}
			}
			if !isLoop {
				continue
			}
			// only the loops before the walk are reset loops
			if !hdr.Dominates(walks[0].Block()) {
				continue
			}
			n++
			if ef := fl.EdgeFacts(b, be[1]); ef == nil || !ef.Must("stored:"+t.name) {
				okBody = false
			}
		}
		r.check(n >= 1 && okBody, rule, "match:reset-"+t.name+"-every-element", w.pos(fn.Pos()), "each element cleared in the reset loop", "the reset loop over scratch."+t.name+" does not clear every element")
	}
}

func c02R2(w *World, r *Report) {
	const rule = "C02.R2"
	r.rule(rule, "single producer of rows: only Results.deliver sends on rowChan; only rowBatcher.flush calls deliver; only processDataBlock calls rowBatcher.add; only markWorkersDone closes rowChan and done", 6)
	for _, op := range w.chanOps() {
		if op.Key != "Results.rowChan" && op.Key != "Results.done" {
			continue
		}
		host := w.name(op.Fn)
		switch op.Kind {
		case "send", "selsend":
			r.check(host == "Results.deliver" && op.Key == "Results.rowChan", rule, op.Key+":sender:"+host, w.instrPos(op.Instr), "sole sender", "rows are sent to the cursor from "+host+": a second producer can deliver unverified or duplicate rows")
		case "close":
			r.check(host == "Results.markWorkersDone", rule, op.Key+":close:"+host, w.instrPos(op.Instr), "closed by markWorkersDone", op.Key+" is closed by "+host)
		case "recv", "selrecv":
			okHosts := map[string]bool{"Results.Next": true, "Results.Close$1": true, "Results.terminate": true}
			r.check(okHosts[host], rule, op.Key+":receiver:"+host, w.instrPos(op.Instr), "cursor-side receiver", "rows are consumed by "+host+", outside the cursor")
		}
	}
	plainCallersOnly(w, r, rule, "Results.deliver", "rowBatcher.flush")
	plainCallersOnly(w, r, rule, "rowBatcher.add", "BloomSearchEngine.processDataBlock")
	for _, s := range w.callSites("rowBatcher.flush") {
		host := baseName(w.name(s.Fn))
		r.check(host == "rowBatcher.add" || host == "BloomSearchEngine.processDataBlock", rule, "rowBatcher.flush<-"+host, w.instrPos(s.Instr), "flushed by the scan", "batches are flushed from "+host)
	}
	for _, s := range w.callSites("Results.markWorkersDone") {
		host := w.name(outermost(s.Fn))
		r.check(host == "BloomSearchEngine.Query" && s.Fn.Parent() != nil, rule, "markWorkersDone<-"+w.name(s.Fn), w.instrPos(s.Instr), "called by the query's teardown goroutine", "markWorkersDone is called from "+w.name(s.Fn))
	}
}

func c02R3(w *World, r *Report) {
	const rule = "C02.R3"
	r.rule(rule, "each batch handed off once: rowBatcher.flush clears b.batch before delivering the old slice; Results.deliver sends the batch at most once per path and exactly once before `return nil`, and adds len(batch) to rowsMatched once per send", 6)
	if fn := fnOrUndecided(w, r, rule, "rowBatcher.flush"); fn != nil {
		cl := &Classifier{Instr: func(in ssa.Instruction) *Event {
			if st, ok := in.(*ssa.Store); ok && deref(w.path(st.Addr)) == "p:b.batch" && isNilConst(st.Val) {
				return ev("cleared")
			}
			return nil
		}}
		fl := newFlow(w, fn, cl)
		n := 0
		for _, in := range w.callSitesIn(fn, "Results.deliver") {
			n++
			c := callOf(in)
			f := fl.Before(in)
			ld, isLoad := c.Args[2].(*ssa.UnOp)
			// the delivered slice is the value loaded from b.batch before it was cleared
			fromField := isLoad && w.path(ld) == "p:b.batch"
			loadBeforeClear := false
			if fromField {
				if lf := fl.Before(ld); lf != nil && !lf.May("cleared") {
					loadBeforeClear = true
				}
			}
			r.check(f.Must("cleared") && fromField && loadBeforeClear, rule, "rowBatcher.flush:clear-then-deliver", w.instrPos(in), "batch field cleared before the old slice is handed to the cursor", fmt.Sprintf("flush delivers with field-cleared=%v old-slice=%v: a later flush (the deferred one at scan exit) would deliver the same rows again", f.Must("cleared"), fromField && loadBeforeClear))
		}
		if n == 0 {
			r.undecided(rule, "rowBatcher.flush:deliver", w.pos(fn.Pos()), "no deliver call")
		}
	}
	if fn := fnOrUndecided(w, r, rule, "Results.deliver"); fn != nil {
		cl := &Classifier{
			SelCase: func(sel *ssa.Select, k int) *Event {
				dir, key, st := w.selState(sel, k)
				if dir == "send" && key == "Results.rowChan" && st != nil && w.path(st.Send) == "p:batch" {
					return ev("sent").count("send")
				}
				return nil
			},
			Call: func(site ssa.Instruction, c *ssa.CallCommon) *Event {
				if w.calleeName(c) == "(*sync/atomic.Int64).Add" && strings.HasSuffix(w.path(c.Args[0]), ".rowsMatched") {
					lv := w.leaves(c.Args[1])
					if lv["len(p:batch)"] {
						return (&Event{}).count("counted")
					}
				}
				return nil
			},
		}
		fl := newFlow(w, fn, cl)
		for i, ret := range fl.Returns() {
			f := fl.Before(ret)
			isNil := allNil(retVals(w, ret, 0))
			sends, counted := f.Cnt("send"), f.Cnt("counted")
			if isNil {
				r.check(sends == c1 && counted == c1, rule, fmt.Sprintf("Results.deliver:return-nil#%d", i), w.instrPos(ret), "exactly one send and one count", "deliver reports success after "+cntString(sends)+" sends and "+cntString(counted)+" RowsMatched updates of the batch")
			} else {
				r.check(sends&c2 == 0 && counted == sends, rule, fmt.Sprintf("Results.deliver:return-err#%d", i), w.instrPos(ret), "at most one send; counted iff sent", "an error path of deliver has "+cntString(sends)+" sends and "+cntString(counted)+" RowsMatched updates: rows are duplicated or RowsMatched drifts from what was delivered")
			}
		}
	}
	// add never drops or duplicates the row: it appends the row exactly once
	if fn := fnOrUndecided(w, r, rule, "rowBatcher.add"); fn != nil {
		n := 0
		eachInstr(fn, func(in ssa.Instruction) {
			if c, ok := in.(*ssa.Call); ok {
				if _, elems, ok := appendedElems(c); ok && len(elems) == 1 && w.path(elems[0]) == "p:row" {
					n++
				}
			}
		})
		r.check(n == 1, rule, "rowBatcher.add:appends-row-once", w.pos(fn.Pos()), "row appended once", fmt.Sprintf("add appends the row %d times", n))
	}
}

// c02R4: strict prefilter table by abstract interpretation.
func c02R4(w *World, r *Report, rule string) {
	r.rule(rule, "strict prefilter table: evaluatePrefilterExpression on constant trees — nil ⇒ true, nil condition ⇒ true, nil sub-condition ⇒ true, empty Or ⇒ false, And = all, Or = any, unknown expression/condition type ⇒ false, missing partition ID or minmax key ⇒ false", 14)
	leaves := []*exprNode{
		{kind: "condnil"},
		{kind: "cond", condType: "PARTITION_NILSUB"},
		{kind: "cond", condType: "MINMAX_NILSUB"},
		{kind: "cond", condType: "PARTITION_MISSING"},
		{kind: "cond", condType: "MINMAX_MISSING"},
		{kind: "cond", condType: "UNKNOWN_COND"},
		{kind: "and"},
		{kind: "or"},
		{kind: "unknown"},
	}
	leafVal := func(n *exprNode) (bool, bool) {
		switch n.condType {
		case "PARTITION_NILSUB", "MINMAX_NILSUB":
			return true, true
		case "PARTITION_MISSING", "MINMAX_MISSING", "UNKNOWN_COND":
			return false, true
		}
		return false, false
	}
	trees := append([]*exprNode{{kind: "nil"}}, smallTrees(leaves)...)
	nBad, nAbort := 0, 0
	perRoot := map[string]int{}
	for _, t := range trees {
		want, ok := constExpected(t, leafVal)
		if !ok {
			continue
		}
		got, ab := w.prefilterVerdict(t)
		name := t.String()
		depth0 := len(t.children) == 0
		switch {
		case ab != "":
			nAbort++
			if nAbort <= 3 {
				r.undecided(rule, "prefilter:"+name, "-", "evaluation of the constant tree is data-dependent or unsupported: "+ab)
			}
		case got != want:
			nBad++
			if nBad <= 6 {
				r.bad(rule, "prefilter:"+name, "-", fmt.Sprintf("evaluatePrefilterExpression(%s) on a block without partition/minmax metadata = %v, documented semantics = %v", name, got, want))
			}
		default:
			if depth0 {
				r.ok(rule, "prefilter:"+name, "-", fmt.Sprintf("= %v", got))
			} else {
				perRoot[t.kind]++
			}
		}
	}
	for k, n := range perRoot {
		r.ok(rule, fmt.Sprintf("prefilter:%s-trees", k), "-", fmt.Sprintf("%d composite constant trees agree with And = all / Or = any", n))
	}
	// EvaluateDataBlockMetadata: nil query / nil expression ⇒ true
	if fn := w.fn("EvaluateDataBlockMetadata"); fn != nil {
		for _, c := range []struct {
			name string
			arg  AVal
		}{{"nil-query", AVal{k: aNil}}, {"nil-expression", ptrTo(w.objOf("QueryPrefilter", nil))}} {
			in := &interp{w: w}
			res, ab := in.run(fn, []AVal{ptrTo(w.objOf("DataBlockMetadata", nil)), c.arg})
			b, isB := false, false
			if ab == "" {
				b, isB = res[0].isBool()
			}
			r.check(ab == "" && isB && b, rule, "EvaluateDataBlockMetadata:"+c.name, w.pos(fn.Pos()), "no prefilter ⇒ every block passes", "EvaluateDataBlockMetadata does not return true for "+c.name+" ("+ab+")")
		}
	}
	// FilterDataBlocks keeps exactly the blocks EvaluateDataBlockMetadata accepts (structure)
	if fn := w.fn("FilterDataBlocks"); fn != nil {
		cl := &Classifier{CallEdge: func(call ssa.Value, outcome string) *Event {
			if c, ok := call.(*ssa.Call); ok && w.isCallTo(&c.Call, "EvaluateDataBlockMetadata") {
				if outcome == "true" {
					return ev("accepted")
				}
				return &Event{May: []string{"rejectedBlock"}}
			}
			return nil
		}}
		fl := newFlow(w, fn, cl)
		n := 0
		eachInstr(fn, func(in ssa.Instruction) {
			if c, ok := in.(*ssa.Call); ok {
				if _, elems, ok := appendedElems(c); ok && len(elems) == 1 && w.typeName(elems[0].Type()) == "DataBlockMetadata" {
					n++
					r.check(fl.Before(in).Must("accepted"), rule, "FilterDataBlocks:append-only-accepted", w.instrPos(in), "only accepted blocks are kept", "FilterDataBlocks keeps a block the prefilter rejected")
				}
			}
		})
		backOK := true
		for _, in := range w.callSitesIn(fn, "EvaluateDataBlockMetadata") {
			// every accepted block is appended before the next iteration
			fl2 := newFlow(w, fn, &Classifier{CallEdge: cl.CallEdge, Call: func(site ssa.Instruction, c *ssa.CallCommon) *Event {
				if b, ok := c.Value.(*ssa.Builtin); ok && b.Name() == "append" {
					return (&Event{}).kill("accepted")
				}
				return nil
			}})
			for _, f := range loopBackEdgeFacts(fl2, in) {
				if f.May("accepted") {
					backOK = false
				}
			}
		}
		r.check(n == 1 && backOK, rule, "FilterDataBlocks:every-accepted-kept", w.pos(fn.Pos()), "every accepted block is kept", "an accepted block can be dropped by FilterDataBlocks")
	}
}

// c02R5: compiled matcher semantics on small trees.
func c02R5(w *World, r *Report, rule string) int {
	r.rule(rule, "matcher constants and combination: for every small bloom tree and every truth assignment of its leaves, compileBloomExpression + evalMatcherNode yields the documented verdict (nil/nil-condition = true, empty Or = false, unknown = false, And = all, Or = any); same constants for the regex matcher (empty field path = false)", 10)
	trees := append([]*exprNode{{kind: "nil"}}, smallTrees(bloomLeafAlphabet())...)
	total, nBad, nAbort := 0, 0, 0
	perRoot := map[string]int{}
	for _, t := range trees {
		assignments(t, func(present map[string]bool) {
			total++
			want, _ := constExpected(t, func(n *exprNode) (bool, bool) { return present[bloomKey(n)], true })
			got, ab := w.rowVerdict(t, present)
			switch {
			case ab != "":
				nAbort++
				if nAbort <= 3 {
					r.undecided(rule, "matcher:"+t.String(), "-", "compiled evaluation is not determined by the tree: "+ab)
				}
			case got != want:
				nBad++
				if nBad <= 6 {
					r.bad(rule, "matcher:"+t.String(), "-", fmt.Sprintf("row verdict %v under %v, documented semantics %v", got, present, want))
				}
			default:
				if len(t.children) == 0 {
					if len(present) == 0 || allTrue(present) {
						r.ok(rule, "matcher:"+t.String(), "-", fmt.Sprintf("= %v", got))
					}
				} else {
					perRoot[t.kind]++
				}
			}
		})
	}
	for k, n := range perRoot {
		r.ok(rule, fmt.Sprintf("matcher:%s-trees", k), "-", fmt.Sprintf("%d (tree, assignment) cases agree", n))
	}
	// regex matcher constants
	comp := w.fn("compiledRowMatcher.compileRegexExpression")
	evalFn := w.fn("evalMatcherNode")
	if comp == nil || evalFn == nil {
		r.undecided(rule, "regex-matcher", "-", "compileRegexExpression/evalMatcherNode not found")
		return total
	}
	cases := []struct {
		name string
		expr AVal
		want bool
	}{
		{"nil", AVal{k: aNil}, true},
		{"condnil", ptrTo(w.objOf("compiledRegexExpression", map[string]AVal{"expressionType": aStr("CONDITION")})), true},
		{"empty-field", ptrTo(w.objOf("compiledRegexExpression", map[string]AVal{"expressionType": aStr("CONDITION"), "condition": ptrTo(w.objOf("compiledRegexCondition", map[string]AVal{"field": aStr("")}))})), false},
		{"empty-or", ptrTo(w.objOf("compiledRegexExpression", map[string]AVal{"expressionType": aStr("OR"), "children": sliceOf()})), false},
		{"empty-and", ptrTo(w.objOf("compiledRegexExpression", map[string]AVal{"expressionType": aStr("AND"), "children": sliceOf()})), true},
		{"unknown", ptrTo(w.objOf("compiledRegexExpression", map[string]AVal{"expressionType": aStr("NO_SUCH_TYPE")})), false},
	}
	for _, c := range cases {
		total++
		m := ptrTo(w.objOf("compiledRowMatcher", nil))
		in := &interp{w: w}
		res, ab := in.run(comp, []AVal{m, c.expr})
		got, isB := false, false
		if ab == "" {
			in2 := &interp{w: w}
			res2, ab2 := in2.run(evalFn, []AVal{ptrTo(res[0]), sliceOf()})
			ab = ab2
			if ab2 == "" {
				got, isB = res2[0].isBool()
			}
		}
		r.check(ab == "" && isB && got == c.want, rule, "regex-matcher:"+c.name, w.pos(comp.Pos()), fmt.Sprintf("= %v", c.want), fmt.Sprintf("compiled regex case %s evaluates to %v (%s), documented %v", c.name, got, ab, c.want))
	}
	return total
}

func allTrue(m map[string]bool) bool {
	for _, v := range m {
		if !v {
			return false
		}
	}
	return true
}

// c02R7: readers never write into block-metadata arrays they did not allocate.
func c02R7(w *World, r *Report, rule string) {
	r.rule(rule, "stored block lists are read-only to queries: in FilterDataBlocks, the MetaStores' GetMaybeFilesForQuery and the query region, every append to a []DataBlockMetadata and every element store into one targets an array allocated in that function (make / append from nil), never the slice it was handed", 1)
	q := w.fn("BloomSearchEngine.Query")
	fns := map[*ssa.Function]bool{}
	if q != nil {
		for fn := range w.reachableFuncs(true, q) {
			fns[fn] = true
		}
	}
	for _, n := range []string{"FilterDataBlocks", "MemoryMetaStore.GetMaybeFilesForQuery", "FileSystemDataStore.GetMaybeFilesForQuery"} {
		if fn := fnOrUndecided(w, r, rule, n); fn != nil {
			fns[fn] = true
			for _, a := range fn.AnonFuncs {
				fns[a] = true
			}
		}
	}
	isBlocks := func(t types.Type) bool { return w.typeName(t) == "[]DataBlockMetadata" }
	count := map[string]int{}
	var names []string
	byName := map[string]*ssa.Function{}
	for fn := range fns {
		if w.ours(fn) && fn.Blocks != nil {
			names = append(names, w.name(fn))
			byName[w.name(fn)] = fn
		}
	}
	sort.Strings(names)
	n := 0
	for _, name := range names {
		fn := byName[name]
		eachInstr(fn, func(in ssa.Instruction) {
			var target ssa.Value
			what := ""
			switch x := in.(type) {
			case *ssa.Call:
				if base, _, ok := appendedElems(x); ok && isBlocks(base.Type()) {
					target, what = base, "append"
				} else if b, isB := x.Call.Value.(*ssa.Builtin); isB && b.Name() == "append" && len(x.Call.Args) > 0 && isBlocks(x.Call.Args[0].Type()) {
					target, what = x.Call.Args[0], "append"
				}
			case *ssa.Store:
				if ia, ok := x.Addr.(*ssa.IndexAddr); ok && isBlocks(ia.X.Type()) {
					target, what = ia.X, "element store"
				}
				if fa, ok := x.Addr.(*ssa.FieldAddr); ok {
					if ia, ok := fa.X.(*ssa.IndexAddr); ok && isBlocks(ia.X.Type()) {
						target, what = ia.X, "element field store"
					}
				}
			}
			if target == nil {
				return
			}
			n++
			out := map[string]bool{}
			sliceOrigins(w, target, map[ssa.Value]bool{}, out)
			delete(out, "fresh")
			ck := baseName(name) + ":" + what
			count[ck]++
			r.check(len(out) == 0, rule, fmt.Sprintf("%s#%d", ck, count[ck]), w.instrPos(in), "writes into an array allocated here", fmt.Sprintf("%s into a []DataBlockMetadata that can share its array with %s: filtering a file's blocks rewrites the block list the MetaStore still holds, so later queries scan some blocks twice and never see others", what, strings.Join(sortedKeys(out), ", ")))
		})
	}
	if n == 0 {
		r.undecided(rule, "sites", "-", "no write to a []DataBlockMetadata found in the read path (FilterDataBlocks' append expected)")
	}
}
