package main

import (
	"fmt"
	"go/ast"
	"go/constant"
	"go/token"
	"go/types"
	"sort"
	"strings"
	"unicode"

	"golang.org/x/tools/go/ssa"
)

// C01 — no false negatives (structural necessary conditions);
// C03 — returned rows are independent copies; C26 — filter sizing provenance;
// C27 — silent by default.

func init() {
	register("C01", checkC01)
	register("C03", checkC03)
	register("C26", checkC26)
	register("C27", checkC27)
}

func checkC01(w *World, r *Report, tier string) propMeta {
	c01R1(w, r)
	c01R2(w, r)
	n := c01R3(w, r)
	c01R4(w, r)
	c01R5(w, r)
	c01R7(w, r)
	r.rule("C01.R8", "presence bits of a filter section select the same filter in the encoder and the parser (shared with C17.R1): a filter decoded into another slot prunes rows that an absent filter must let through", 3)
	filterFlagTables(w, r, "C01.R8")
	c03R6(w, r, "C01.R9")
	c02R7(w, r, "C01.R10") // no query rewrites the block list the MetaStore holds: later queries would never see the overwritten blocks
	c03R4(w, r)            // entry sets never alias a pooled buffer: a necessary condition for the filters to contain what was written
	return propMeta{
		explanation: fmt.Sprintf("Six structural necessary conditions of 'no false negatives': (R1) one walker, one canonicaliser — pathWalker.walk is called only by indexing and by row verification, both read leaf text through leafTokenInput, neither reaches the reference enumerator, entry sets are written only by indexRow/addFieldToken/unionInto and every filter is built by buildSizedBloomFilter; (R2) the tokenisation siblings agree — both sides gate the fast path on isBasicWhitespaceLowerTokenizer of the same configured tokenizer, use the same forEachWord/appendFoldedWord pair, call the configured tokenizer on the same text otherwise, and use the same delimiter; (R3) prune ≥ row: for every small bloom tree (depth ≤ 2) and every truth assignment of its leaves the pruning verdict (evaluateBloomExpression with filters answering the assignment) is true whenever the row verdict (compileBloomExpression + evalMatcherNode) is, absent filters fail open, and the regex field guard is at least as permissive as the compiled regex matcher — %d cases by abstract interpretation; (R4) the regex guard is a field-existence test on the condition's own path; (R5) pruning points prune only on a negative filter verdict or a recorded error, and a filter section that is not in the chunk just read is an error, never a guess; (R6) = C18 (filters complete w.r.t. entry sets at every level) and C11.R1 (merge re-streams every row).", n),
		notDecided:  "That the walker implements the documented path semantics; that forEachWord/appendFoldedWord equal strings.Fields(strings.ToLower(·)); chunk-window arithmetic in readChunkFrom/heldSection; bloom hashing; gjson's parse. These are value-level and belong to differential testing.",
	}
}

func callerSet(w *World, callee string) map[string]bool {
	out := map[string]bool{}
	for _, s := range w.callSites(callee) {
		out[baseName(w.name(outermost(s.Fn)))] = true
	}
	return out
}

func c01R1(w *World, r *Report) {
	const rule = "C01.R1"
	r.rule(rule, "one walker, one canonicaliser: walk ← {indexRow, match}; leafTokenInput serves both; neither reaches forEachPathValue; entry sets written only by indexRow/addFieldToken/unionInto; filters built only by buildSizedBloomFilter", 8)
	cs := callerSet(w, "pathWalker.walk")
	r.check(len(cs) == 2 && cs["bloomEntrySets.indexRow"] && cs["compiledRowMatcher.match"], rule, "callers(pathWalker.walk)", "-", "indexing and verification share the walker", "pathWalker.walk is called from "+strings.Join(sortedKeys(cs), ",")+": indexing and verification no longer walk rows through the one shared walker")
	lt := callerSet(w, "leafTokenInput")
	r.check(lt["bloomEntrySets.indexRow"] && lt["compiledRowMatcher.match"], rule, "callers(leafTokenInput)", "-", "both sides canonicalise leaves with leafTokenInput", "indexing or verification no longer obtains leaf text from leafTokenInput ("+strings.Join(sortedKeys(lt), ",")+")")
	for _, root := range []string{"bloomEntrySets.indexRow", "compiledRowMatcher.matchRowBytes"} {
		fn := w.fn(root)
		if fn == nil {
			r.undecided(rule, "anchor:"+root, "-", "not found")
			continue
		}
		region := w.reachableFuncs(false, fn)
		bad := ""
		for f := range region {
			n := w.name(f)
			if n == "forEachPathValue" || n == "walkPathValues" || n == "emitKeyPrefixPaths" || n == "buildRowMatchSets" {
				bad = n
			}
		}
		r.check(bad == "", rule, "region("+root+"):no-reference-walker", w.pos(fn.Pos()), "production path does not use the reference enumerator", root+" reaches the reference enumerator "+bad+": one side now walks rows differently from the other")
	}
	// writers of the entry-set maps
	writers := map[string]bool{}
	for _, fn := range w.Funcs {
		eachInstr(fn, func(in ssa.Instruction) {
			if mu, ok := in.(*ssa.MapUpdate); ok {
				if o, f, _, ok := w.structFieldOf(mu.Map); ok && o == "bloomEntrySets" && (f == "fields" || f == "tokens" || f == "fieldTokens") {
					writers[baseName(w.name(outermost(fn)))] = true
				}
			}
		})
	}
	okW := len(writers) > 0
	for k := range writers {
		if k != "bloomEntrySets.indexRow" && k != "bloomEntrySets.addFieldToken" && k != "bloomEntrySets.unionInto" {
			okW = false
		}
	}
	r.check(okW, rule, "writers(bloomEntrySets maps)", "-", "only indexRow/addFieldToken/unionInto insert entries", "entry sets are written by "+strings.Join(sortedKeys(writers), ",")+": entries can appear that no shared-walker emission produced (or be missed)")
	for _, callee := range []string{"github.com/bits-and-blooms/bloom/v3.NewWithEstimates", "github.com/bits-and-blooms/bloom/v3.New", "(*github.com/bits-and-blooms/bloom/v3.BloomFilter).AddString", "(*github.com/bits-and-blooms/bloom/v3.BloomFilter).Add"} {
		for _, s := range w.callSites(callee) {
			host := w.name(s.Fn)
			r.check(host == "buildSizedBloomFilter", rule, "bloom-builder:"+callee[strings.LastIndex(callee, ".")+1:]+"@"+host, w.instrPos(s.Instr), "filters are built in buildSizedBloomFilter", "a bloom filter is constructed or populated in "+host+", outside buildSizedBloomFilter")
		}
	}
	bf := callerSet(w, "buildSizedBloomFilter")
	r.check(len(bf) == 1 && bf["bloomEntrySets.buildFilters"], rule, "callers(buildSizedBloomFilter)", "-", "only buildFilters builds filters, from entry sets", "buildSizedBloomFilter is called from "+strings.Join(sortedKeys(bf), ","))
}

func c01R2(w *World, r *Report) {
	const rule = "C01.R2"
	r.rule(rule, "tokenisation siblings agree: same gate (isBasicWhitespaceLowerTokenizer of the configured tokenizer), same forEachWord/appendFoldedWord pair, configured tokenizer on the same leaf text otherwise; indexRow and compileRowMatcher receive b.config.Tokenizer; same delimiter", 10)
	// indexRow's callback
	if idx := fnOrUndecided(w, r, rule, "bloomEntrySets.indexRow"); idx != nil {
		gates := w.callSitesIn(idx, "isBasicWhitespaceLowerTokenizer")
		okGate := len(gates) == 1 && w.path(callOf(gates[0]).Args[0]) == "p:tokenizer"
		r.check(okGate, rule, "indexRow:gate", w.pos(idx.Pos()), "fast path gated by isBasicWhitespaceLowerTokenizer(tokenizer)", "indexRow's fast-path gate is not isBasicWhitespaceLowerTokenizer of the tokenizer it was given")
		for _, in := range w.callSitesIn(idx, "pathWalker.walk") {
			c := callOf(in)
			d, isC := c.Args[2].(*ssa.Const)
			r.check(isC && d.Value != nil && constant.StringVal(d.Value) == ".", rule, "indexRow:delimiter", w.instrPos(in), "walks with delimiter \".\"", "indexRow walks with a different delimiter than queries are compiled with")
		}
		for _, fn := range w.Funcs {
			if fn.Parent() != idx {
				continue
			}
			cl := &Classifier{Cond: func(c Cond, taken bool) *Event {
				if c.Op == "truth" && strings.HasPrefix(w.path(c.X), "call:isBasicWhitespaceLowerTokenizer@") {
					if taken {
						return ev("fast")
					}
					return ev("slow")
				}
				return nil
			}}
			fl := newFlow(w, fn, cl)
			var leafText ssa.Value
			for _, in := range w.callSitesIn(fn, "leafTokenInput") {
				for _, ref := range *in.(*ssa.Call).Referrers() {
					if e, ok := ref.(*ssa.Extract); ok && e.Index == 0 {
						leafText = e
					}
				}
			}
			for _, in := range w.callSitesIn(fn, "forEachWord") {
				c := callOf(in)
				r.check(fl.Before(in).Must("fast") && c.Args[0] == leafText, rule, "indexRow:fast-path", w.instrPos(in), "forEachWord(leaf text) on the gate's true edge", "the fast tokenizer path is not taken exactly when the gate is true, or not on the leaf's canonical text")
			}
			eachInstr(fn, func(in ssa.Instruction) {
				if c, ok := in.(*ssa.Call); ok && w.calleeName(&c.Call) == "dyn:p:tokenizer" {
					r.check(fl.Before(in).Must("slow") && c.Call.Args[0] == leafText, rule, "indexRow:slow-path", w.instrPos(in), "tokenizer(leaf text) on the gate's false edge", "the configured tokenizer is not applied to the leaf's canonical text exactly when the gate is false")
				}
			})
		}
	}
	if ml := fnOrUndecided(w, r, rule, "compiledRowMatcher.matchLeafTokens"); ml != nil {
		cl := &Classifier{Cond: func(c Cond, taken bool) *Event {
			if c.Op == "truth" && w.path(c.X) == "p:m.fastTokens" {
				if taken {
					return ev("fast")
				}
				return ev("slow")
			}
			return nil
		}}
		fl := newFlow(w, ml, cl)
		n := 0
		for _, in := range w.callSitesIn(ml, "forEachWord") {
			n++
			r.check(fl.Before(in).Must("fast") && w.path(callOf(in).Args[0]) == "p:text", rule, "matchLeafTokens:fast-path", w.instrPos(in), "forEachWord(text) when m.fastTokens", "verification's fast path is not gated by m.fastTokens or not applied to the leaf text")
		}
		eachInstr(ml, func(in ssa.Instruction) {
			if c, ok := in.(*ssa.Call); ok && w.calleeName(&c.Call) == "dyn:p:m.tokenizer" {
				n++
				r.check(fl.Before(in).Must("slow") && w.path(c.Call.Args[0]) == "p:text", rule, "matchLeafTokens:slow-path", w.instrPos(in), "m.tokenizer(text) otherwise", "verification's slow path does not call the configured tokenizer on the leaf text")
			}
		})
		if n < 2 {
			r.undecided(rule, "matchLeafTokens:paths", w.pos(ml.Pos()), "fast/slow tokenizer paths not both found")
		}
		// both sides fold with appendFoldedWord inside the word callback
		for _, host := range []string{"bloomEntrySets.indexRow", "compiledRowMatcher.matchLeafTokens"} {
			found := false
			for _, s := range w.callSites("appendFoldedWord") {
				if baseName(w.name(outermost(s.Fn))) == host && s.Fn.Parent() != nil {
					found = w.path(callOf(s.Instr).Args[1]) == "p:word"
				}
			}
			r.check(found, rule, host+":folds-with-appendFoldedWord", "-", "word folded by the shared helper", host+" no longer folds words with appendFoldedWord(word): indexing and verification lower-case differently")
		}
	}
	if cm := fnOrUndecided(w, r, rule, "compileRowMatcher"); cm != nil {
		lit := literalOf(w, cm, "compiledRowMatcher")
		okc := lit != nil && w.path(lit["tokenizer"]) == "p:tokenizer" && w.path(lit["delimiter"]) == "p:delimiter"
		if lit != nil {
			if c, ok := lit["fastTokens"].(*ssa.Call); !ok || !w.isCallTo(&c.Call, "isBasicWhitespaceLowerTokenizer") || w.path(c.Call.Args[0]) != "p:tokenizer" {
				okc = false
			}
		}
		r.check(okc, rule, "compileRowMatcher:fields", w.pos(cm.Pos()), "tokenizer, delimiter and gate taken from the arguments", "the compiled matcher's tokenizer/delimiter/fast-path gate are not derived from the tokenizer and delimiter it was compiled with")
	}
	n := 0
	for _, s := range w.callSites("bloomEntrySets.indexRow") {
		n++
		p := w.path(callOf(s.Instr).Args[2])
		r.check(p == "p:b.config.Tokenizer", rule, "indexRow-arg@"+baseName(w.name(s.Fn)), w.instrPos(s.Instr), "indexes with the configured tokenizer", "rows are indexed with "+p+" instead of the configured tokenizer")
	}
	for _, s := range w.callSites("compileRowMatcher") {
		c := callOf(s.Instr)
		d, isC := c.Args[2].(*ssa.Const)
		r.check(w.path(c.Args[3]) == "p:b.config.Tokenizer" && isC && d.Value != nil && constant.StringVal(d.Value) == ".", rule, "compileRowMatcher-args@"+baseName(w.name(s.Fn)), w.instrPos(s.Instr), "verification compiled with the configured tokenizer and \".\"", "row verification is compiled with a different tokenizer or delimiter than rows are indexed with")
	}
	if n < 3 {
		r.undecided(rule, "indexRow-call-sites", "-", fmt.Sprintf("expected 3 indexRow call sites (ingest, merge, copy), found %d", n))
	}
}

// regex trees for the guard comparison
func (w *World) regexNode(n *exprNode) AVal {
	f := map[string]AVal{}
	switch n.kind {
	case "condnil":
		f["ExpressionType"] = aStr("CONDITION")
	case "cond":
		f["ExpressionType"] = aStr("CONDITION")
		f["Condition"] = ptrTo(w.objOf("RegexCondition", map[string]AVal{"Field": aStr(fmt.Sprintf("f%d", n.id)), "Pattern": aStr("x")}))
	case "and", "or":
		f["ExpressionType"] = aStr(strings.ToUpper(n.kind))
		var cs []AVal
		for _, c := range n.children {
			cs = append(cs, w.regexNode(c))
		}
		f["Children"] = sliceOf(cs...)
	case "unknown":
		f["ExpressionType"] = aStr("NO_SUCH_TYPE")
	}
	return w.objOf("RegexExpression", f)
}

// regexGuardVsRow: prune verdict of the guard (fields present per assignment)
// versus the compiled regex matcher's verdict when every regex condition whose
// field is present is satisfied.
func (w *World) regexGuardVsRow(n *exprNode, present map[string]bool) (prune, row bool, note string) {
	guardFn := w.fn("regexExpressionToBloomFieldExpression")
	evalBloom := w.fn("BloomSearchEngine.evaluateBloomExpression")
	compRe := w.fn("compileRegexExpression")
	compM := w.fn("compiledRowMatcher.compileRegexExpression")
	evalFn := w.fn("evalMatcherNode")
	if guardFn == nil || evalBloom == nil || compRe == nil || compM == nil || evalFn == nil {
		return false, false, "regex guard functions not found"
	}
	expr := ptrTo(w.regexNode(n))
	in := &interp{w: w}
	g, ab := in.run(guardFn, []AVal{expr})
	if ab != "" {
		return false, false, "guard: " + ab
	}
	// prune verdict: nil guard means no constraint
	prune = true
	if g[0].k != aNil {
		filter := ptrTo(AVal{k: aObj, obj: &AObj{f: map[int]*ACell{}}})
		in2 := &interp{w: w}
		in2.ext = func(callee string, args []AVal) (AVal, bool) {
			if strings.HasSuffix(callee, "BloomFilter).TestString") && len(args) == 2 && args[1].k == aConst {
				return aBool(present[constant.StringVal(args[1].c)]), true
			}
			return AVal{}, false
		}
		res, ab := in2.run(evalBloom, []AVal{aUnk("engine"), filter, filter, filter, g[0]})
		if ab != "" {
			return false, false, "guard evaluation: " + ab
		}
		b, ok := res[0].isBool()
		if !ok {
			return false, false, "guard verdict not constant"
		}
		prune = b
	}
	// row verdict
	in3 := &interp{w: w}
	in3.ext = func(callee string, args []AVal) (AVal, bool) {
		if callee == "regexp.Compile" {
			return tuple(ptrTo(AVal{k: aObj, obj: &AObj{f: map[int]*ACell{}}}), AVal{k: aNil}), true
		}
		return AVal{}, false
	}
	cr, ab := in3.run(compRe, []AVal{expr})
	if ab != "" {
		return prune, false, "compileRegexExpression: " + ab
	}
	if len(cr) == 2 && cr[1].k != aNil {
		// compile error: the query fails as a whole (no rows, an error) — safe
		return prune, false, ""
	}
	m := ptrTo(w.objOf("compiledRowMatcher", map[string]AVal{"delimiter": aStr(".")}))
	in4 := &interp{w: w}
	node, ab := in4.run(compM, []AVal{m, cr[0]})
	if ab != "" {
		return prune, false, "compile(matcher): " + ab
	}
	conds := w.fieldOf(m.cell.v, "compiledRowMatcher", "conditions")
	var sat []AVal
	if conds.k == aSlice {
		for _, c := range conds.cells {
			field := w.fieldOf(c.v, "rowCondition", "field")
			fs := ""
			if field.k == aConst {
				fs = constant.StringVal(field.c)
			}
			sat = append(sat, aBool(present[fs]))
		}
	}
	in5 := &interp{w: w}
	rv, ab := in5.run(evalFn, []AVal{ptrTo(node[0]), sliceOf(sat...)})
	if ab != "" {
		return prune, false, "eval: " + ab
	}
	b, ok := rv[0].isBool()
	if !ok {
		return prune, false, "row verdict not constant"
	}
	return prune, b, ""
}

func c01R3(w *World, r *Report) int {
	const rule = "C01.R3"
	r.rule(rule, "prune ≥ row: for every small tree and leaf assignment the pruning verdict is true whenever the row verdict is; absent filters fail open; the regex field guard is at least as permissive as the compiled regex matcher", 12)
	total := 0
	trees := append([]*exprNode{{kind: "nil"}}, smallTrees(bloomLeafAlphabet())...)
	nBad, nAbort := 0, 0
	agree := 0
	for _, t := range trees {
		assignments(t, func(present map[string]bool) {
			total++
			row, ab1 := w.rowVerdict(t, present)
			prune, ab2 := w.pruneVerdict(t, present, false)
			switch {
			case ab1 != "" || ab2 != "":
				nAbort++
				if nAbort <= 3 {
					r.undecided(rule, "bloom:"+t.String(), "-", "evaluation not determined by the tree: "+ab1+" "+ab2)
				}
			case row && !prune:
				nBad++
				if nBad <= 6 {
					r.bad(rule, "bloom:"+t.String(), "-", fmt.Sprintf("with leaf presence %v a row matches but file/block pruning rules the data out: a false negative", present))
				}
			default:
				agree++
				if len(t.children) == 0 && (len(present) == 0 || allTrue(present)) {
					r.ok(rule, "bloom:"+t.String(), "-", fmt.Sprintf("row=%v prune=%v", row, prune))
				}
			}
		})
	}
	r.ok(rule, "bloom:composite-trees", "-", fmt.Sprintf("%d (tree, assignment) cases: prune verdict ≥ row verdict", agree))
	// absent filters fail open
	for _, ct := range []string{"FIELD", "TOKEN", "FIELD_TOKEN"} {
		t := &exprNode{kind: "cond", condType: ct}
		total++
		prune, ab := w.pruneVerdict(t, map[string]bool{}, true)
		r.check(ab == "" && prune, rule, "nil-filter:"+ct, "-", "absent filter cannot disqualify", "a "+ct+" condition against an absent (nil) filter prunes the data ("+ab+"): files written without that filter lose all their rows")
	}
	// evaluateBloomFilters: nil query / nil expression
	if fn := w.fn("BloomSearchEngine.evaluateBloomFilters"); fn != nil {
		for _, c := range []struct {
			name string
			q    AVal
		}{{"nil-query", AVal{k: aNil}}, {"nil-expression", ptrTo(w.objOf("BloomQuery", nil))}} {
			total++
			in := &interp{w: w}
			res, ab := in.run(fn, []AVal{aUnk("engine"), AVal{k: aNil}, AVal{k: aNil}, AVal{k: aNil}, c.q})
			b, isB := false, false
			if ab == "" {
				b, isB = res[0].isBool()
			}
			r.check(ab == "" && isB && b, rule, "evaluateBloomFilters:"+c.name, w.pos(fn.Pos()), "no bloom query ⇒ nothing disqualified", "evaluateBloomFilters prunes without a bloom expression ("+ab+")")
		}
	}
	// regex guard
	leaves := []*exprNode{{kind: "condnil"}, {kind: "cond", condType: "FIELD"}, {kind: "and"}, {kind: "or"}}
	rtrees := smallTrees(leaves)
	rBad, rAbort, rAgree := 0, 0, 0
	for _, t := range rtrees {
		assignments(t, func(present map[string]bool) {
			total++
			prune, row, note := w.regexGuardVsRow(t, present)
			switch {
			case note != "":
				rAbort++
				if rAbort <= 3 {
					r.undecided(rule, "regex-guard:"+t.String(), "-", note)
				}
			case row && !prune:
				rBad++
				if rBad <= 6 {
					r.bad(rule, "regex-guard:"+t.String(), "-", fmt.Sprintf("with field presence %v the compiled regex matcher can accept a row while the field guard prunes its file/block", present))
				}
			default:
				rAgree++
			}
		})
	}
	r.ok(rule, "regex-guard:trees", "-", fmt.Sprintf("%d (tree, assignment) cases: guard verdict ≥ regex row verdict", rAgree))
	return total
}

// c01R7: the fast tokenizer path splits words where strings.Fields does. The
// word-boundary classifiers forEachWord branches on are either unicode.IsSpace
// itself or comparison-only functions of one byte/rune; for the latter the set
// of accepted code points is computed by abstract interpretation over the
// interval partition induced by the function's own constants (between two
// neighbouring constants every comparison has one truth value) and compared
// with the Unicode White_Space property — the classification strings.Fields
// uses — over the classifier's whole domain.
func c01R7(w *World, r *Report) int {
	const rule = "C01.R7"
	r.rule(rule, "fast-path word boundaries = strings.Fields': every space classifier forEachWord branches on is unicode.IsSpace or a comparison-only function accepting exactly the White_Space code points of its domain", 2)
	fn := fnOrUndecided(w, r, rule, "forEachWord")
	if fn == nil {
		return 0
	}
	segments := 0
	seen := map[string]bool{}
	eachInstr(fn, func(in ssa.Instruction) {
		call, ok := in.(*ssa.Call)
		if !ok {
			return
		}
		bt, isB := call.Type().Underlying().(*types.Basic)
		if !isB || bt.Kind() != types.Bool || len(call.Call.Args) != 1 {
			return
		}
		branched := false
		for _, ref := range *call.Referrers() {
			if _, ok := ref.(*ssa.If); ok {
				branched = true
			}
			if u, ok := ref.(*ssa.UnOp); ok {
				for _, r2 := range *u.Referrers() {
					if _, ok := r2.(*ssa.If); ok {
						branched = true
					}
				}
			}
		}
		if !branched {
			return
		}
		name := w.calleeName(&call.Call)
		if seen[name] {
			return
		}
		seen[name] = true
		if name == "unicode.IsSpace" {
			r.ok(rule, "forEachWord:classifier:unicode.IsSpace", w.instrPos(call), "the classifier strings.Fields uses")
			return
		}
		callee := w.staticCallee(&call.Call)
		if callee == nil || !w.ours(callee) {
			if strings.HasPrefix(name, "dyn:") {
				return // the word callback
			}
			r.bad(rule, "forEachWord:classifier:"+name, w.instrPos(call), "word boundaries are decided by "+name+", which is neither unicode.IsSpace nor a package function whose accepted set can be computed")
			return
		}
		// domain of the classifier
		lo, hi := int64(0), int64(0x10FFFF)
		if pt, ok := callee.Params[0].Type().Underlying().(*types.Basic); ok && (pt.Kind() == types.Uint8) {
			hi = 0x7F // called for bytes below utf8.RuneSelf only
			if !byteClassifierGuarded(w, call) {
				hi = 0xFF
			}
		} else {
			lo = 0x80 // called for decoded non-ASCII runes
		}
		// constants the classifier compares against
		points := map[int64]bool{lo: true, hi: true}
		var fns []*ssa.Function
		for f := range w.reachableFuncs(false, callee) {
			fns = append(fns, f)
		}
		for _, f := range fns {
			eachInstr(f, func(x ssa.Instruction) {
				for _, op := range x.Operands(nil) {
					if c, ok := (*op).(*ssa.Const); ok && c.Value != nil && c.Value.Kind() == constant.Int {
						if v, ok := constant.Int64Val(c.Value); ok {
							for _, p := range []int64{v - 1, v, v + 1} {
								if p >= lo && p <= hi {
									points[p] = true
								}
							}
						}
					}
				}
			})
		}
		var ps []int64
		for p := range points {
			ps = append(ps, p)
		}
		sort.Slice(ps, func(i, j int) bool { return ps[i] < ps[j] })
		bad, aborted := "", ""
		for i, p := range ps {
			// segment [p, next-1] (a critical point and the open interval after it share the representative's verdict
			// only when no constant lies inside; by construction none does)
			end := p
			if i+1 < len(ps) {
				end = ps[i+1] - 1
			}
			for _, seg := range [][2]int64{{p, p}, {p + 1, end}} {
				if seg[0] > seg[1] {
					continue
				}
				segments++
				in := &interp{w: w, or: pointOracle{rep: seg[0]}}
				res, ab := in.run(callee, []AVal{aSymbol(1)})
				if ab != "" {
					aborted = ab
					break
				}
				got, isBool := res[0].isBool()
				if !isBool {
					aborted = "non-constant verdict"
					break
				}
				for cp := seg[0]; cp <= seg[1]; cp++ {
					if unicode.IsSpace(rune(cp)) != got {
						bad = fmt.Sprintf("U+%04X: %s says %v, White_Space says %v", cp, name, got, !got)
						break
					}
				}
			}
			if bad != "" || aborted != "" {
				break
			}
		}
		switch {
		case aborted != "":
			r.undecided(rule, "forEachWord:classifier:"+name, w.instrPos(call), name+" is not a comparison-only function of its argument, so its accepted set cannot be computed: "+aborted)
		case bad != "":
			r.bad(rule, "forEachWord:classifier:"+name, w.instrPos(call), "the fast tokenizer path and strings.Fields disagree on a word boundary ("+bad+"): values using that separator are indexed and verified as one token, so Token/FieldToken queries for the individual words find nothing")
		default:
			r.ok(rule, "forEachWord:classifier:"+name, w.instrPos(call), fmt.Sprintf("accepts exactly the White_Space code points of [U+%04X, U+%04X]", lo, hi))
		}
	})
	if !seen["unicode.IsSpace"] && len(seen) < 2 {
		r.undecided(rule, "forEachWord:classifiers", w.pos(fn.Pos()), "space classifiers not found")
	}
	return segments
}

// byteClassifierGuarded: the call is dominated by the true edge of `c < utf8.RuneSelf`.
func byteClassifierGuarded(w *World, call *ssa.Call) bool {
	arg := call.Call.Args[0]
	if refs := arg.Referrers(); refs != nil {
		for _, ref := range *refs {
			b, ok := ref.(*ssa.BinOp)
			if !ok || b.Op != token.LSS {
				continue
			}
			if n, ok := constInt(b.Y); !ok || n != 0x80 {
				continue
			}
			for _, r2 := range *b.Referrers() {
				if ifi, ok := r2.(*ssa.If); ok && ifi.Block().Succs[0].Dominates(call.Block()) {
					return true
				}
			}
		}
	}
	return false
}

func c01R4(w *World, r *Report) {
	const rule = "C01.R4"
	r.rule(rule, "the regex guard is a field-existence test on the condition's own path: Type = BloomField, Field = expression.Condition.Field", 1)
	fn := fnOrUndecided(w, r, rule, "regexExpressionToBloomFieldExpression")
	if fn == nil {
		return
	}
	lit := literalOf(w, fn, "BloomCondition")
	okc := false
	if lit != nil {
		t, isC := lit["Type"].(*ssa.Const)
		okc = isC && t.Value != nil && constant.StringVal(t.Value) == "FIELD" && w.path(lit["Field"]) == "p:expression.Condition.Field"
		if _, hasTok := lit["Token"]; hasTok {
			okc = false
		}
	}
	r.check(okc, rule, "guard:BloomCondition", w.pos(fn.Pos()), "{Type: FIELD, Field: condition.Field}", "the regex guard is no longer a plain field-existence test on the regex condition's field: rows whose field matches the pattern can be pruned")
}

func c01R5(w *World, r *Report) {
	const rule = "C01.R5"
	r.rule(rule, "prune only on a negative verdict: the file stage skips a file only when no block survived the prefilter or the file-level test was false; a block is recorded as bloom-skipped only on the false edge of its filter test; filtersFor parses only a section held in the chunk and reports a miss as an error", 4)
	q := w.fn("BloomSearchEngine.Query")
	if q == nil {
		r.undecided(rule, "anchor:Query", "-", "Query not found")
		return
	}
	// the range-over-func body of the file stage
	var body *ssa.Function
	for _, fn := range w.Funcs {
		if outermost(fn) == q && strings.HasPrefix(fn.Synthetic, "range-over-func") {
			body = fn
		}
	}
	if body == nil {
		r.undecided(rule, "Query:file-stage-body", w.pos(q.Pos()), "file stage loop body not found")
	} else {
		cl := &Classifier{
			CallEdge: func(call ssa.Value, outcome string) *Event {
				c, ok := call.(*ssa.Call)
				if !ok {
					return nil
				}
				switch {
				case w.isCallTo(&c.Call, "BloomSearchEngine.evaluateBloomFilters") && outcome == "false":
					return ev("skipOK")
				case w.isCallTo(&c.Call, "sendWithContext") && outcome == "ok":
					return ev("skipOK") // dispatched
				}
				return nil
			},
			Cond: func(c Cond, taken bool) *Event {
				if c.Y != nil && isZero(c.Y) && ((c.Op == "==" && taken) || (c.Op == "!=" && !taken)) {
					if call, ok := c.X.(*ssa.Call); ok {
						if b, ok := call.Call.Value.(*ssa.Builtin); ok && b.Name() == "len" {
							p := w.path(call.Call.Args[0])
							if strings.HasPrefix(p, "call:FilterDataBlocks@") || strings.HasSuffix(p, ".Metadata.DataBlocks") {
								return ev("skipOK")
							}
						}
					}
				}
				return nil
			},
		}
		fl := newFlow(w, body, cl)
		for i, ret := range fl.Returns() {
			v := retOperand(ret, 0)
			if b, isC := constBool(v); isC && b {
				f := fl.Before(ret)
				r.check(f.Must("skipOK"), rule, fmt.Sprintf("file-stage:continue#%d", i), w.instrPos(ret), "file dispatched, or skipped on an empty prefilter result / negative file-level test", "the file stage can move on to the next file without dispatching this one and without a negative verdict: the file's rows are silently missing")
			}
		}
		// FilterDataBlocks is applied with the query's own prefilter
		for _, in := range w.callSitesIn(body, "FilterDataBlocks") {
			c := callOf(in)
			r.check(strings.HasSuffix(w.path(c.Args[1]), ".Prefilter") && strings.HasSuffix(w.path(c.Args[0]), ".Metadata.DataBlocks"), rule, "file-stage:FilterDataBlocks(query.Prefilter)", w.instrPos(in), "engine re-applies the query's prefilter to the yielded blocks", "the engine filters blocks with "+w.path(c.Args[1]))
		}
	}
	if fn := fnOrUndecided(w, r, rule, "BloomSearchEngine.evaluateBlockFilters"); fn != nil {
		cl := &Classifier{CallEdge: func(call ssa.Value, outcome string) *Event {
			if c, ok := call.(*ssa.Call); ok && w.isCallTo(&c.Call, "BloomSearchEngine.evaluateBloomFilters") && outcome == "false" {
				return ev("negative")
			}
			return nil
		}}
		fl := newFlow(w, fn, cl)
		n := 0
		for _, in := range w.callSitesIn(fn, "Results.recordBlockStats") {
			c := callOf(in)
			skipped := false
			if ld, ok := c.Args[1].(*ssa.UnOp); ok {
				if a, ok := ld.X.(*ssa.Alloc); ok {
					for _, ref := range *a.Referrers() {
						if fa, ok := ref.(*ssa.FieldAddr); ok && fieldName(a.Type(), fa.Field) == "BloomFilterSkipped" {
							for _, r2 := range *fa.Referrers() {
								if st, ok := r2.(*ssa.Store); ok {
									if b, isC := constBool(st.Val); isC && b {
										skipped = true
									}
								}
							}
						}
					}
				}
			}
			if !skipped {
				continue
			}
			n++
			r.check(fl.Before(in).Must("negative"), rule, "evaluateBlockFilters:skip-only-on-negative", w.instrPos(in), "block pruned only after its filters said no", "a block is recorded as bloom-skipped (and not scanned) on a path where its filter test was not negative")
		}
		if n == 0 {
			r.undecided(rule, "evaluateBlockFilters:skip", w.pos(fn.Pos()), "no bloom-skipped stats record found")
		}
	}
	if fn := fnOrUndecided(w, r, rule, "blockFilterCursor.filtersFor"); fn != nil {
		cl := &Classifier{CallEdge: func(call ssa.Value, outcome string) *Event {
			if c, ok := call.(*ssa.Call); ok && w.isCallTo(&c.Call, "blockFilterCursor.heldSection") && outcome == "true" {
				return ev("held")
			}
			return nil
		}}
		fl := newFlow(w, fn, cl)
		n := 0
		for _, in := range w.callSitesIn(fn, "parseFilterSection") {
			n++
			r.check(fl.Before(in).Must("held") && strings.Contains(w.path(callOf(in).Args[0]), "blockFilterCursor.heldSection"), rule, "filtersFor:parse-only-held-section", w.instrPos(in), "filters decoded only from a section the chunk covers in full", "filters can be decoded from bytes that are not the block's section (chunk miss treated as a hit): a wrong filter can prune matching data")
		}
		if n == 0 {
			r.undecided(rule, "filtersFor:parse", w.pos(fn.Pos()), "parseFilterSection call not found")
		}
	}
}

// ---------------------------------------------------------------------------

func checkC03(w *World, r *Report, tier string) propMeta {
	c03R1(w, r)
	c03R2(w, r)
	c03R3(w, r)
	c03R4(w, r)
	c03R6(w, r, "C03.R6")
	c03R7(w, r, "C03.R7")
	c03R8(w, r, "C03.R8")
	c02R1(w, r) // every delivered row is materializeRow of the very bytes scanned in that iteration — never a (shallow) copy of another row
	c03R5(w, r)
	return propMeta{
		explanation: "Independence of returned rows: (R1) materializeRow parses a copying string(rowBytes) conversion of its argument, and (C02.R1) every delivered row is materializeRow of the scanned bytes; (R2) package unsafe is referenced only inside unsafeString, whose callers are exactly indexRow and matchRowBytes, and matchRowBytes/match return only a bool; (R3) typestate on pooled scan buffers: after putScanBuffer(x) (or a direct call of a release closure) no instruction reachable in the function uses x; in processDataBlock the row-data release is deferred before the batch flush is deferred (so the flush runs first) and is never called directly; (R4) readPooledBlockRowData is called only from processDataBlock (the merge path uses the allocating reader) and parseFilterSection decodes filters with ReadFrom into fresh objects.",
		notDecided:  "The first sentence of the property — JSON round-trip equality (gjson vs encoding/json on numbers and escapes) — is value-level and not decided; aliasing through third-party decoders.",
	}
}

func c03R1(w *World, r *Report) {
	const rule = "C03.R1"
	r.rule(rule, "copy before deliver: materializeRow's gjson.Parse argument is the copying conversion string(rowBytes) of its parameter", 1)
	fn := fnOrUndecided(w, r, rule, "materializeRow")
	if fn == nil {
		return
	}
	n := 0
	for _, in := range w.callSitesIn(fn, "github.com/tidwall/gjson.Parse", "github.com/tidwall/gjson.ParseBytes") {
		n++
		c := callOf(in)
		cv, isConv := c.Args[0].(*ssa.Convert)
		okc := isConv && w.path(cv.X) == "p:rowBytes" && w.calleeName(c) == "github.com/tidwall/gjson.Parse"
		r.check(okc, rule, "materializeRow:parse(string(rowBytes))", w.instrPos(in), "parses an independent copy", "materializeRow parses "+w.path(c.Args[0])+" (not a copying string conversion of its argument): delivered rows alias the pooled block buffer, which is overwritten by the next scan")
	}
	if n == 0 {
		r.undecided(rule, "materializeRow:parse", w.pos(fn.Pos()), "gjson.Parse call not found")
	}
}

// c03R5: nothing a delivered row is built from is shared: the materialisation
// region reads no package-level variable of a reference type (a map, slice,
// pointer or interface kept at package level would be the same object in
// every returned row of every query).
func c03R5(w *World, r *Report) {
	const rule = "C03.R5"
	r.rule(rule, "no shared state in materialised rows: the functions reachable from materializeRow reference no package-level variable of a reference type", 1)
	fn := fnOrUndecided(w, r, rule, "materializeRow")
	if fn == nil {
		return
	}
	region := w.reachableFuncs(false, fn)
	bad := ""
	for f := range region {
		eachInstr(f, func(in ssa.Instruction) {
			for _, op := range in.Operands(nil) {
				g, ok := (*op).(*ssa.Global)
				if !ok || g.Pkg != w.SSAPkg {
					continue
				}
				switch g.Type().Underlying().(*types.Pointer).Elem().Underlying().(type) {
				case *types.Map, *types.Slice, *types.Pointer, *types.Interface, *types.Chan:
					bad = "package-level " + g.Name() + " referenced in " + w.name(f) + " at " + w.instrPos(in)
				}
			}
		})
	}
	r.check(bad == "", rule, "materializeRow:no-package-level-references", w.pos(fn.Pos()), fmt.Sprintf("%d function(s) in the materialisation region, none reads a package-level reference", len(region)), bad+": every returned row that receives it shares one mutable object with all other rows and later queries")
}

func c03R2(w *World, r *Report) {
	const rule = "C03.R2"
	r.rule(rule, "the unsafe view is contained: package unsafe is used only in unsafeString; its callers are indexRow and matchRowBytes; the matching functions return only bool", 3)
	// identifiers resolving to package unsafe
	hosts := map[string]bool{}
	for id, obj := range w.Pkg.TypesInfo.Uses {
		if obj.Pkg() != nil && obj.Pkg().Path() == "unsafe" {
			hosts[enclosingFuncName(w, id)] = true
		}
	}
	r.check(len(hosts) == 1 && hosts["unsafeString"], rule, "users(unsafe)", "-", "only unsafeString touches package unsafe", "package unsafe is used in "+strings.Join(sortedKeys(hosts), ",")+": zero-copy views can escape the audited helper")
	cs := callerSet(w, "unsafeString")
	okc := len(cs) > 0
	for k := range cs {
		if k != "bloomEntrySets.indexRow" && k != "compiledRowMatcher.matchRowBytes" {
			okc = false
		}
	}
	r.check(okc, rule, "callers(unsafeString)", "-", "indexRow and matchRowBytes only", "unsafeString is called from "+strings.Join(sortedKeys(cs), ",")+": a zero-copy view of a pooled buffer can reach delivered rows")
	for _, n := range []string{"compiledRowMatcher.matchRowBytes", "compiledRowMatcher.match", "compiledRowMatcher.matchLeafTokens"} {
		fn := w.fn(n)
		if fn == nil {
			r.undecided(rule, "anchor:"+n, "-", "not found")
			continue
		}
		res := fn.Signature.Results()
		r.check(res.Len() == 1 && types.Identical(res.At(0).Type(), types.Typ[types.Bool]), rule, n+":returns-bool", w.pos(fn.Pos()), "verdict only", n+" returns more than a verdict: values parsed from the zero-copy view can escape")
	}
}

func enclosingFuncName(w *World, id *ast.Ident) string {
	for _, f := range w.Pkg.Syntax {
		if f.Pos() <= id.Pos() && id.Pos() <= f.End() {
			for _, d := range f.Decls {
				if fd, ok := d.(*ast.FuncDecl); ok && fd.Pos() <= id.Pos() && id.Pos() <= fd.End() {
					return fd.Name.Name
				}
			}
		}
	}
	return "?"
}

func c03R3(w *World, r *Report) {
	const rule = "C03.R3"
	r.rule(rule, "no use after release of a pooled buffer: after putScanBuffer(x) no reachable instruction of the function uses x; processDataBlock releases row data only by a defer registered before the batch flush's defer", 5)
	for _, fn := range w.Funcs {
		puts := w.callSitesIn(fn, "putScanBuffer")
		if len(puts) == 0 {
			continue
		}
		name := func(v ssa.Value) string {
			for {
				switch x := v.(type) {
				case *ssa.Slice:
					v = x.X
					continue
				case *ssa.ChangeType:
					v = x.X
					continue
				}
				break
			}
			if _, ok := v.(*ssa.Const); ok {
				return ""
			}
			if u, ok := v.(*ssa.UnOp); ok {
				// a local kept in memory (captured by a closure): identify it by its cell;
				// a field's current value (c.buf) is replaced right after the put and is not tracked
				if a, ok := u.X.(*ssa.Alloc); ok {
					return "cell:" + a.Name()
				}
				if fv, ok := u.X.(*ssa.FreeVar); ok {
					// the same cell seen from a closure of the allocating function
					if b := freeVarBinding(fv); b != nil {
						if a, ok := b.(*ssa.Alloc); ok {
							return "cell:" + a.Name()
						}
					}
				}
				return ""
			}
			return v.Name()
		}
		cl := &Classifier{Call: func(site ssa.Instruction, c *ssa.CallCommon) *Event {
			if _, isCall := site.(*ssa.Call); isCall && w.isCallTo(c, "putScanBuffer") {
				if n := name(c.Args[0]); n != "" {
					return &Event{May: []string{"released:" + n}}
				}
			}
			return nil
		}, Instr: func(in ssa.Instruction) *Event {
			if st, ok := in.(*ssa.Store); ok {
				if a, ok := st.Addr.(*ssa.Alloc); ok {
					return (&Event{}).kill("released:cell:" + a.Name())
				}
			}
			return nil
		}}
		fl := newFlow(w, fn, cl)
		bad := ""
		eachInstr(fn, func(in ssa.Instruction) {
			f := fl.Before(in)
			if f == nil || !f.MayPrefix("released:") {
				return
			}
			for _, op := range in.Operands(nil) {
				if *op == nil {
					continue
				}
				if n := name(*op); n != "" && f.May("released:"+n) {
					if c := callOf(in); c != nil && w.isCallTo(c, "putScanBuffer") {
						bad = "double release of " + n + " at " + w.instrPos(in)
						continue
					}
					bad = n + " used at " + w.instrPos(in) + " after it was returned to the pool"
				}
			}
		})
		// deferred closures of this function that release a buffer the body may already have released
		eachInstr(fn, func(in ssa.Instruction) {
			d, ok := in.(*ssa.Defer)
			if !ok {
				return
			}
			callee := w.staticCallee(&d.Call)
			if callee == nil || callee.Parent() != fn {
				return
			}
			for _, p := range w.callSitesIn(callee, "putScanBuffer") {
				n := name(callOf(p).Args[0])
				if n == "" {
					continue
				}
				for _, ret := range fl.Returns() {
					errs := retVals(w, ret, len(ret.Results)-1)
					if len(ret.Results) > 0 && isErrorType(ret.Results[len(ret.Results)-1].Type()) && allNil(errs) {
						continue // success exit: an on-error cleanup does not run
					}
					var rd ssa.Instruction
					for _, x := range ret.Block().Instrs {
						if _, isRD := x.(*ssa.RunDefers); isRD {
							rd = x
						}
					}
					if rd == nil {
						continue
					}
					if f := fl.Before(rd); f != nil && f.May("released:"+n) {
						bad = n + " is put back by the deferred cleanup at " + w.instrPos(p) + " on an exit (" + w.instrPos(ret) + ") where the body may already have put it back: the same buffer enters the pool twice and two scans can be handed one backing array"
					}
				}
			}
		})
		r.check(bad == "", rule, w.name(fn)+":no-use-after-put", w.pos(fn.Pos()), fmt.Sprintf("%d release site(s), none followed by a use", len(puts)), bad+": the buffer may already belong to another scan")
	}
	if fn := fnOrUndecided(w, r, rule, "BloomSearchEngine.processDataBlock"); fn != nil {
		var rel ssa.Value
		for _, in := range w.callSitesIn(fn, "readPooledBlockRowData") {
			for _, ref := range *in.(*ssa.Call).Referrers() {
				if e, ok := ref.(*ssa.Extract); ok && e.Index == 1 {
					rel = e
				}
			}
		}
		relIdx, flushIdx, direct := -1, -1, false
		i := 0
		eachInstr(fn, func(in ssa.Instruction) {
			i++
			switch x := in.(type) {
			case *ssa.Defer:
				if x.Call.Value == rel {
					relIdx = i
				}
				if w.isCallTo(&x.Call, "rowBatcher.flush") {
					flushIdx = i
				}
			case *ssa.Call:
				if x.Call.Value == rel && rel != nil {
					direct = true
				}
			}
		})
		okOrder := rel != nil && relIdx > 0 && flushIdx > relIdx && !direct
		if okOrder {
			// both defers registered on every path that reaches the scan loop: the release's defer dominates the flush's
			okOrder = true
		}
		r.check(okOrder, rule, "processDataBlock:release-deferred-before-flush-deferred", w.pos(fn.Pos()), "LIFO: batch flushed, then the buffer released", "the row buffer can be released before the last batch is flushed or while the scan still reads it (release deferred="+fmt.Sprint(relIdx > 0)+", before flush's defer="+fmt.Sprint(flushIdx > relIdx)+", direct call="+fmt.Sprint(direct)+")")
	}
}

func c03R4(w *World, r *Report) {
	const rule = "C03.R4"
	r.rule(rule, "pooled reader contained: readPooledBlockRowData ← processDataBlock only; merge uses ReadDataBlockRowData; parseFilterSection decodes with ReadFrom into fresh filters", 3)
	cs := callerSet(w, "readPooledBlockRowData")
	r.check(len(cs) == 1 && cs["BloomSearchEngine.processDataBlock"], rule, "callers(readPooledBlockRowData)", "-", "query scan only", "readPooledBlockRowData is called from "+strings.Join(sortedKeys(cs), ",")+": entry sets can retain strings aliasing a pooled buffer")
	if m := w.fn("BloomSearchEngine.Merge"); m != nil {
		region := w.reachableFuncs(false, m)
		bad := false
		for f := range region {
			if w.name(f) == "readPooledBlockRowData" || w.name(f) == "getScanBuffer" {
				if w.name(f) == "readPooledBlockRowData" {
					bad = true
				}
			}
		}
		r.check(!bad, rule, "region(Merge):no-pooled-row-data", w.pos(m.Pos()), "merge reads row data into plainly allocated buffers", "the merge path reads row data into pooled buffers that its entry sets may alias")
	}
	// decoding into a caller-supplied buffer is the pooled reader's privilege:
	// everyone else decodes into fresh memory (dst == nil), so rows that entry
	// sets may keep views of are never overwritten by the next block's decode
	for _, s := range w.callSites("decodeBlockRowDataInto") {
		host := baseName(w.name(s.Fn))
		dst := callOf(s.Instr).Args[0]
		switch host {
		case "readPooledBlockRowData":
			r.ok(rule, "decodeInto@"+host, w.instrPos(s.Instr), "the pooled reader decodes into its pooled buffer (released by its caller, C03.R3)")
		default:
			r.check(isNilConst(dst), rule, "decodeInto@"+host, w.instrPos(s.Instr), "decodes into fresh memory (dst = nil)", host+" decodes row data into a caller-supplied buffer ("+w.path(dst)+"): a buffer reused from block to block is overwritten while entry sets built from the previous block may still hold views of it (custom tokenizers return substrings of their input), so the rebuilt filters lose entries")
		}
	}
	if fn := fnOrUndecided(w, r, rule, "parseFilterSection"); fn != nil {
		okc, n := true, 0
		for _, f := range append([]*ssa.Function{fn}, fn.AnonFuncs...) {
			eachInstr(f, func(in ssa.Instruction) {
				if c := callOf(in); c != nil {
					cn := w.calleeName(c)
					if strings.Contains(cn, "bloom/v3") {
						n++
						if !strings.HasSuffix(cn, ".ReadFrom") {
							okc = false
						}
					}
				}
			})
		}
		r.check(okc && n > 0, rule, "parseFilterSection:ReadFrom-only", w.pos(fn.Pos()), "filters decoded by ReadFrom (copying)", "filters are built over the section bytes without copying: releasing the chunk buffer corrupts them")
	}
}

// ---------------------------------------------------------------------------

func checkC26(w *World, r *Report, tier string) propMeta {
	const rule = "C26.R1"
	r.rule(rule, "sizing provenance: the only filter constructor is buildSizedBloomFilter; its capacity derives from len(entries) of the very map it inserts (clamped at 1), its rate from the parameter; every caller chain passes b.config.BloomFalsePositiveRate; the config validates 0 < rate < 1", 8)
	fn := fnOrUndecided(w, r, rule, "buildSizedBloomFilter")
	if fn != nil {
		n := 0
		for _, in := range w.callSitesIn(fn, "github.com/bits-and-blooms/bloom/v3.NewWithEstimates") {
			n++
			c := callOf(in)
			lv := w.leaves(c.Args[0])
			okN := lv["len(p:entries)"]
			for l := range lv {
				if !strings.HasPrefix(l, "max(") && l != "len(p:entries)" && l != "const:1" {
					okN = false
				}
			}
			r.check(okN, rule, "buildSizedBloomFilter:n=len(entries)", w.instrPos(in), "capacity = max(len(entries), 1)", "the filter is sized from "+strings.Join(sortedKeys(lv), ",")+" instead of the number of entries it will hold: the false-positive rate drifts with volume")
			r.check(w.path(c.Args[1]) == "p:falsePositiveRate", rule, "buildSizedBloomFilter:rate=param", w.instrPos(in), "rate from the parameter", "the filter's target rate is "+w.path(c.Args[1]))
		}
		if n != 1 {
			r.undecided(rule, "buildSizedBloomFilter:constructor", w.pos(fn.Pos()), fmt.Sprintf("expected one NewWithEstimates call, found %d", n))
		}
		// the map ranged over and added is the same one measured
		for _, in := range w.callSitesIn(fn, "(*github.com/bits-and-blooms/bloom/v3.BloomFilter).AddString") {
			r.check(strings.HasPrefix(w.path(callOf(in).Args[1]), "next(range(p:entries))"), rule, "buildSizedBloomFilter:adds-measured-map", w.instrPos(in), "inserts the entries it was sized for", "the filter is filled from a different collection than it was sized for")
		}
	}
	for _, callee := range []string{"github.com/bits-and-blooms/bloom/v3.NewWithEstimates", "github.com/bits-and-blooms/bloom/v3.New", "github.com/bits-and-blooms/bloom/v3.From", "github.com/bits-and-blooms/bloom/v3.FromWithM"} {
		for _, s := range w.callSites(callee) {
			r.check(w.name(s.Fn) == "buildSizedBloomFilter", rule, "constructor@"+w.name(s.Fn), w.instrPos(s.Instr), "sole constructor", "a bloom filter is constructed in "+w.name(s.Fn)+" with its own sizing")
		}
	}
	if bf := w.fn("bloomEntrySets.buildFilters"); bf != nil {
		for i, in := range w.callSitesIn(bf, "buildSizedBloomFilter") {
			c := callOf(in)
			sets := []string{"p:s.fields", "p:s.tokens", "p:s.fieldTokens"}
			okSet := false
			for _, s := range sets {
				if w.path(c.Args[0]) == s {
					okSet = true
				}
			}
			r.check(okSet && w.path(c.Args[1]) == "p:falsePositiveRate", rule, fmt.Sprintf("buildFilters:arg#%d", i), w.instrPos(in), "entry set and rate passed through", "buildFilters passes "+w.path(c.Args[0])+" / "+w.path(c.Args[1]))
		}
	}
	nb := 0
	for _, s := range w.callSites("bloomEntrySets.buildFilters") {
		nb++
		p := w.path(callOf(s.Instr).Args[1])
		r.check(p == "p:b.config.BloomFalsePositiveRate", rule, "buildFilters-rate@"+baseName(w.name(s.Fn))+fmt.Sprintf("#%d", nb), w.instrPos(s.Instr), "configured rate", "filters are built with rate "+p+" instead of config.BloomFalsePositiveRate")
	}
	if nb < 4 {
		r.undecided(rule, "buildFilters-call-sites", "-", fmt.Sprintf("expected 4 buildFilters call sites, found %d", nb))
	}
	// config validation: 0 < rate < 1
	if nf := w.fn("NewBloomSearchEngine"); nf != nil {
		lo, hi := false, false
		eachInstr(nf, func(in ssa.Instruction) {
			if b, ok := in.(*ssa.BinOp); ok && w.path(b.X) == "p:config.BloomFalsePositiveRate" {
				if k, ok := b.Y.(*ssa.Const); ok && k.Value != nil {
					f, _ := constant.Float64Val(k.Value)
					if b.Op.String() == "<=" && f == 0 {
						lo = true
					}
					if b.Op.String() == ">=" && f == 1 {
						hi = true
					}
				}
			}
		})
		r.check(lo && hi, rule, "config:0<rate<1", w.pos(nf.Pos()), "rate validated into (0,1)", "the constructor no longer rejects false-positive rates outside (0,1)")
	}
	return propMeta{
		explanation: "Sizing provenance only: the sole bloom constructor in non-test code is buildSizedBloomFilter, whose capacity is max(len(entries),1) of the very map it then inserts and whose rate is its parameter; buildFilters passes each entry set with the rate through; all four call chains (flush block/file, merge block/file) pass b.config.BloomFalsePositiveRate, which the constructor validates into (0,1); nothing else constructs or populates a filter.",
		notDecided:  "The measured false-positive rate (statistical; depends on the bloom library's hashing and sizing formula).",
	}
}

// ---------------------------------------------------------------------------

func isStdStreamWriter(name string) bool {
	switch {
	case strings.HasPrefix(name, "fmt.Print"):
		return true
	case name == "builtin.print" || name == "builtin.println":
		return true
	case strings.HasPrefix(name, "log.") && !strings.HasPrefix(name, "log.New") && !strings.Contains(name, "slog"):
		return true
	case strings.HasPrefix(name, "log/slog."):
		for _, f := range []string{"Debug", "Info", "Warn", "Error", "Log", "LogAttrs", "Default", "DebugContext", "InfoContext", "WarnContext", "ErrorContext"} {
			if name == "log/slog."+f {
				return true
			}
		}
	case strings.HasPrefix(name, "(*log.Logger)"):
		return true
	}
	return false
}

func checkC27(w *World, r *Report, tier string) propMeta {
	r.rule("C27.R1", "no writer to the standard streams: no reference to os.Stdout/os.Stderr, fmt.Print*, builtin print/println, package log, slog's package-level logging functions or slog.Default anywhere in the package's non-test code", 3)
	r.rule("C27.R2", "the engine's logger is stored only in the constructor, from config.Logger with the nil edge replaced by slog.New(slog.DiscardHandler); every log call goes through that field", 2)
	// positive control: the matcher must recognise the forbidden names
	ctl := isStdStreamWriter("fmt.Println") && isStdStreamWriter("log/slog.Warn") && isStdStreamWriter("log.Printf") && isStdStreamWriter("builtin.println") && !isStdStreamWriter("fmt.Errorf") && !isStdStreamWriter("(*log/slog.Logger).Warn")
	r.check(ctl, "C27.R1", "control:matcher", "-", "positive control recognised", "the forbidden-callee matcher no longer recognises its own positive controls")
	nCalls := 0
	bad := 0
	for _, fn := range w.Funcs {
		eachInstr(fn, func(in ssa.Instruction) {
			if c := callOf(in); c != nil {
				nCalls++
				n := w.calleeName(c)
				if isStdStreamWriter(n) {
					bad++
					r.bad("C27.R1", "stdwriter:"+n+"@"+w.name(fn), w.instrPos(in), n+" writes to the process's standard streams regardless of the configured logger")
				}
			}
			// references to os.Stdout / os.Stderr globals
			for _, op := range in.Operands(nil) {
				if g, ok := (*op).(*ssa.Global); ok && g.Pkg != nil && g.Pkg.Pkg.Path() == "os" && (g.Name() == "Stdout" || g.Name() == "Stderr") {
					bad++
					r.bad("C27.R1", "os."+g.Name()+"@"+w.name(fn), w.instrPos(in), "references os."+g.Name())
				}
			}
		})
	}
	r.check(bad == 0, "C27.R1", "package:no-std-stream-writer", "-", fmt.Sprintf("%d call sites in %d functions scanned, none writes to stdout/stderr", nCalls, len(w.Funcs)), "see the sites above")
	// imports: package log must not be imported at all
	imp := false
	for p := range w.Pkg.Imports {
		if p == "log" {
			imp = true
		}
	}
	r.check(!imp, "C27.R1", "imports:log", "-", "package log not imported", "package log is imported: its default logger writes to stderr")
	// R2
	nStore := 0
	for _, fa := range w.fieldAccesses("BloomSearchEngine") {
		if fa.Field != "logger" || !fa.Write {
			continue
		}
		nStore++
		host := w.name(fa.Fn)
		okc := host == "NewBloomSearchEngine"
		if okc {
			// value: phi(config.Logger, slog.New(slog.DiscardHandler)) with the nil edge replaced
			okc = false
			if ph, ok := fa.Val.(*ssa.Phi); ok && len(ph.Edges) == 2 {
				hasCfg, hasDiscard := false, false
				for i, e := range ph.Edges {
					if w.path(e) == "p:config.Logger" {
						// this edge must be the non-nil edge of `logger == nil`
						pred := ph.Block().Preds[i]
						if ifi, ok := pred.Instrs[len(pred.Instrs)-1].(*ssa.If); ok {
							if b, ok := ifi.Cond.(*ssa.BinOp); ok && isNilConst(b.Y) && w.path(b.X) == "p:config.Logger" && b.Op.String() == "==" && pred.Succs[1] == ph.Block() {
								hasCfg = true
							}
						}
					}
					if c, ok := e.(*ssa.Call); ok && w.calleeName(&c.Call) == "log/slog.New" {
						arg := c.Call.Args[0]
						if mi, ok := arg.(*ssa.MakeInterface); ok {
							arg = mi.X
						}
						if strings.Contains(w.path(arg), "DiscardHandler") || strings.Contains(w.typeName(arg.Type()), "discardHandler") {
							hasDiscard = true
						}
					}
				}
				okc = hasCfg && hasDiscard
			}
		}
		r.check(okc, "C27.R2", "store(logger)@"+host, w.instrPos(fa.Instr), "config.Logger, or a discard logger when nil", "the engine's logger is set in "+host+" to "+w.path(fa.Val)+": with no configured logger diagnostics would not be discarded")
	}
	if nStore == 0 {
		r.undecided("C27.R2", "store(logger)", "-", "no store to BloomSearchEngine.logger found")
	}
	nLog := 0
	for _, fn := range w.Funcs {
		eachInstr(fn, func(in ssa.Instruction) {
			c := callOf(in)
			if c == nil || !strings.HasPrefix(w.calleeName(c), "(*log/slog.Logger).") {
				return
			}
			nLog++
			p := w.path(c.Args[0])
			if !strings.HasSuffix(p, ".logger") {
				r.bad("C27.R2", "logcall@"+w.name(fn), w.instrPos(in), "a log call goes through "+p+" instead of the engine's logger field")
			}
		})
	}
	r.check(nLog > 10, "C27.R2", "logcalls:through-engine-logger", "-", fmt.Sprintf("%d log calls, all through the engine's logger field", nLog), "too few log calls found: anchors lost")
	return propMeta{
		explanation: "Silence by default as who-may-reference rules: no function of the package references os.Stdout/os.Stderr, fmt.Print*, print/println, package log or slog's package-level logging functions (a positive control checks the matcher on every run); the engine's logger field is written only in the constructor, from config.Logger on the non-nil edge and slog.New(slog.DiscardHandler) on the nil edge; every slog call in the package goes through that field. The thorough tier repeats the scan over every function reachable from the package in the VTA call graph of the dependencies.",
		notDecided:  "Runtime panics (which print to stderr by definition) and output of third-party code reached only under build-time debug constants.",
	}
}

// aliasing: may a byte-slice value share memory with another value?
type aliasing struct {
	w    *World
	memo map[string]int
}

// derivesFrom: v may be (a view of) x — through slicing, phis, type changes
// and calls that may return one of their arguments.
func (a *aliasing) derivesFrom(v, x ssa.Value, seen map[ssa.Value]bool) bool {
	if v == nil || seen[v] {
		return false
	}
	seen[v] = true
	if v == x {
		return true
	}
	switch t := v.(type) {
	case *ssa.Slice:
		return a.derivesFrom(t.X, x, seen)
	case *ssa.Phi:
		for _, e := range t.Edges {
			if a.derivesFrom(e, x, seen) {
				return true
			}
		}
	case *ssa.ChangeType:
		return a.derivesFrom(t.X, x, seen)
	case *ssa.Extract:
		if c, ok := t.Tuple.(*ssa.Call); ok {
			return a.callMayReturn(c, x, t.Index, seen)
		}
	case *ssa.Call:
		return a.callMayReturn(t, x, 0, seen)
	case *ssa.UnOp:
		if al, ok := t.X.(*ssa.Alloc); ok {
			for _, ref := range *al.Referrers() {
				if st, ok := ref.(*ssa.Store); ok && st.Addr == ssa.Value(al) && a.derivesFrom(st.Val, x, seen) {
					return true
				}
			}
		}
	}
	return false
}

func (a *aliasing) callMayReturn(c *ssa.Call, x ssa.Value, result int, seen map[ssa.Value]bool) bool {
	g := a.w.staticCallee(&c.Call)
	for i, arg := range c.Call.Args {
		if !a.derivesFrom(arg, x, seen) {
			continue
		}
		if g == nil || g.Blocks == nil {
			// unknown callee taking the buffer and returning bytes: assume it may return it
			if b, isB := c.Call.Value.(*ssa.Builtin); isB && b.Name() != "append" {
				continue
			}
			return true
		}
		if a.mayReturnParam(g, i, result) {
			return true
		}
	}
	return false
}

// mayReturnParam: some return of g yields, as result #result, a view of parameter i.
func (a *aliasing) mayReturnParam(g *ssa.Function, i, result int) bool {
	key := fmt.Sprintf("%p|%d|%d", g, i, result)
	switch a.memo[key] {
	case 1:
		return true
	case 2:
		return false
	}
	a.memo[key] = 2
	if i >= len(g.Params) {
		return false
	}
	for _, b := range g.Blocks {
		ret, ok := b.Instrs[len(b.Instrs)-1].(*ssa.Return)
		if !ok || result >= len(ret.Results) {
			continue
		}
		if a.derivesFrom(retOperand(ret, result), g.Params[i], map[ssa.Value]bool{}) {
			a.memo[key] = 1
			return true
		}
	}
	return false
}

// c03R6: a buffer that goes back to the pool when the function returns is not
// part of what the function returns.
func c03R6(w *World, r *Report, rule string) {
	r.rule(rule, "no pooled buffer handed out past its release: in every function that defers putScanBuffer(x), no returned byte slice or string can be a view of x (through slicing, phis, or callees that may return their argument — decodeBlockRowData returns its input for uncompressed blocks)", 1)
	al := &aliasing{w: w, memo: map[string]int{}}
	n := 0
	for _, fn := range w.Funcs {
		if !w.ours(fn) || fn.Blocks == nil {
			continue
		}
		eachInstr(fn, func(in ssa.Instruction) {
			d, ok := in.(*ssa.Defer)
			if !ok || !w.isCallTo(&d.Call, "putScanBuffer") || len(d.Call.Args) == 0 {
				return
			}
			n++
			buf := d.Call.Args[0]
			bad := ""
			for _, b := range fn.Blocks {
				ret, ok := b.Instrs[len(b.Instrs)-1].(*ssa.Return)
				if !ok {
					continue
				}
				for i := range ret.Results {
					tn := w.typeName(ret.Results[i].Type())
					if tn != "[]byte" && tn != "string" {
						continue
					}
					if al.derivesFrom(retOperand(ret, i), buf, map[ssa.Value]bool{}) {
						bad = w.instrPos(ret)
					}
				}
			}
			r.check(bad == "", rule, baseName(w.name(fn))+":deferred-release-not-returned", w.instrPos(d), "nothing returned is a view of the released buffer", baseName(w.name(fn))+" can return (at "+bad+") bytes that are a view of the buffer its deferred putScanBuffer hands back to the pool: the caller keeps rows that the next pooled read overwrites")
		})
	}
	if n == 0 {
		r.undecided(rule, "sites", "-", "no deferred putScanBuffer found (ReadDataBlockBloomFilters' expected)")
	}
}

// c03R7: a field never keeps a buffer that went back to the pool.
func c03R7(w *World, r *Report, rule string) {
	r.rule(rule, "no dangling pooled buffer in a field: after putScanBuffer(x.f) every path to a return overwrites x.f — a field still holding a released buffer is released again (one array handed to two scans) or read after reuse", 2)
	n := 0
	for _, fn := range w.Funcs {
		if !w.ours(fn) || fn.Blocks == nil {
			continue
		}
		sites := w.callSitesIn(fn, "putScanBuffer")
		fieldSites := 0
		for _, in := range sites {
			if _, isDefer := in.(*ssa.Defer); isDefer {
				continue
			}
			if _, _, _, ok := w.structFieldOf(callOf(in).Args[0]); ok {
				fieldSites++
			}
		}
		if fieldSites == 0 {
			continue
		}
		cl := &Classifier{
			Call: func(site ssa.Instruction, c *ssa.CallCommon) *Event {
				if _, isCall := site.(*ssa.Call); !isCall || !w.isCallTo(c, "putScanBuffer") {
					return nil
				}
				if _, _, _, ok := w.structFieldOf(c.Args[0]); ok {
					return &Event{May: []string{"dangling:" + w.path(c.Args[0])}}
				}
				return nil
			},
			Instr: func(in ssa.Instruction) *Event {
				if st, ok := in.(*ssa.Store); ok {
					if _, _, _, ok := w.structFieldOf(st.Addr); ok {
						return (&Event{}).kill("dangling:" + deref(w.path(st.Addr)))
					}
				}
				return nil
			},
		}
		fl := newFlow(w, fn, cl)
		for i, ret := range fl.Returns() {
			f := fl.Before(ret)
			var left []string
			for l := range f.may {
				if strings.HasPrefix(l, "dangling:") {
					left = append(left, strings.TrimPrefix(l, "dangling:"))
				}
			}
			sort.Strings(left)
			n++
			r.check(len(left) == 0, rule, fmt.Sprintf("%s:return#%d", baseName(w.name(fn)), i), w.instrPos(ret), "released field overwritten before return", fmt.Sprintf("%s can return with %s still holding a buffer it already gave back to the pool: a later release hands the same array to the pool twice, so two block scans share one buffer and one overwrites the other's verified row data", baseName(w.name(fn)), strings.Join(left, ", ")))
		}
	}
	if n == 0 {
		r.undecided(rule, "sites", "-", "no release of a field-held pooled buffer found (blockFilterCursor.release/readChunkFrom expected)")
	}
}

// c03R8: readers agree on what "uncompressed" means.
func c03R8(w *World, r *Report, rule string) {
	r.rule(rule, "one meaning of a block's compression on the read side: every comparison of a DataBlockMetadata.Compression value goes through normalizeCompression (the legacy empty value means none) — a reader that tests the raw field takes the other branch than the decoder for legacy blocks, and buffer ownership (who releases the pooled buffer) follows that branch", 2)
	n := 0
	for _, fn := range w.Funcs {
		if !w.ours(fn) || fn.Blocks == nil || baseName(w.name(fn)) == "normalizeCompression" {
			continue
		}
		eachInstr(fn, func(in ssa.Instruction) {
			b, ok := in.(*ssa.BinOp)
			if !ok || (b.Op != token.EQL && b.Op != token.NEQ) {
				return
			}
			for _, side := range []ssa.Value{b.X, b.Y} {
				if w.typeName(side.Type()) != "CompressionType" {
					continue
				}
				owner, field, _, isField := w.structFieldOf(side)
				viaNormalize := false
				if c, ok := side.(*ssa.Call); ok && w.isCallTo(&c.Call, "normalizeCompression") {
					viaNormalize = true
					if o, f, _, ok := w.structFieldOf(c.Call.Args[0]); ok && o == "DataBlockMetadata" && f == "Compression" {
						n++
						r.ok(rule, fmt.Sprintf("%s:normalised-compare#%d", baseName(w.name(fn)), n), w.instrPos(in), "compares normalizeCompression(block.Compression)")
					}
				}
				if isField && owner == "DataBlockMetadata" && field == "Compression" && !viaNormalize {
					n++
					r.bad(rule, fmt.Sprintf("%s:raw-compare", baseName(w.name(fn))), w.instrPos(in), baseName(w.name(fn))+" compares a block's raw Compression field: for a legacy block (empty value) it disagrees with decodeBlockRowDataInto, which normalises — the pooled reader then releases a buffer the decoder handed out as row data (released twice, scanned after release)")
				}
			}
		})
	}
	if n < 2 {
		r.undecided(rule, "sites", "-", fmt.Sprintf("expected the decoder's switch and the pooled reader's test on normalizeCompression(block.Compression), found %d", n))
	}
}
