package main

// E5: constant-case tables and small-tree agreement of the expression
// evaluators, obtained by abstract interpretation (absint.go) on abstract
// expression trees — never by running bloomsearch on data. A tree's leaves are
// condition placeholders with a truth assignment ("this field/token is
// present"); the bloom-filter test and the row-level satisfaction vector both
// read that assignment, so the pruning verdict and the row verdict of one tree
// can be compared for every assignment.

import (
	"fmt"
	"go/constant"
	"strings"
)

type exprNode struct {
	kind     string // nil, condnil, cond, condunknown, and, or, unknown
	condType string // FIELD, TOKEN, FIELD_TOKEN (bloom)
	id       int    // leaf id for cond leaves
	children []*exprNode
}

func (n *exprNode) String() string {
	switch n.kind {
	case "cond":
		return fmt.Sprintf("%s#%d", n.condType, n.id)
	case "and", "or":
		var cs []string
		for _, c := range n.children {
			cs = append(cs, c.String())
		}
		return n.kind + "(" + strings.Join(cs, ",") + ")"
	}
	return n.kind
}

func (n *exprNode) leaves(acc *[]*exprNode) {
	if n.kind == "cond" {
		*acc = append(*acc, n)
	}
	for _, c := range n.children {
		c.leaves(acc)
	}
}

// smallTrees enumerates expression trees of depth ≤ 2 over the leaf alphabet.
func smallTrees(leafKinds []*exprNode) []*exprNode {
	clone := func(n *exprNode) *exprNode { c := *n; return &c }
	var t0 []*exprNode
	for _, l := range leafKinds {
		t0 = append(t0, clone(l))
	}
	var t1 []*exprNode
	for _, op := range []string{"and", "or"} {
		for _, a := range t0 {
			t1 = append(t1, &exprNode{kind: op, children: []*exprNode{clone(a)}})
			for _, b := range t0 {
				t1 = append(t1, &exprNode{kind: op, children: []*exprNode{clone(a), clone(b)}})
			}
		}
	}
	var t2 []*exprNode
	for _, op := range []string{"and", "or"} {
		for _, a := range t0 {
			if a.kind == "condunknown" {
				continue
			}
			for _, b := range t1 {
				t2 = append(t2, &exprNode{kind: op, children: []*exprNode{clone(a), deepClone(b)}})
				t2 = append(t2, &exprNode{kind: op, children: []*exprNode{deepClone(b), clone(a)}})
			}
		}
	}
	// three children over a reduced alphabet (a true constant, a false constant, a data leaf)
	var tri []*exprNode
	for _, l := range t0 {
		if l.kind == "condnil" || (l.kind == "or" && len(l.children) == 0) || (l.kind == "cond" && len(tri) < 3) {
			dup := false
			for _, x := range tri {
				if x.kind == l.kind {
					dup = true
				}
			}
			if !dup {
				tri = append(tri, l)
			}
		}
	}
	for _, op := range []string{"and", "or"} {
		for _, a := range tri {
			for _, b := range tri {
				for _, c := range tri {
					t1 = append(t1, &exprNode{kind: op, children: []*exprNode{clone(a), clone(b), clone(c)}})
				}
			}
		}
	}
	all := append(append(t0, t1...), t2...)
	for _, t := range all {
		var ls []*exprNode
		t.leaves(&ls)
		for i, l := range ls {
			l.id = i
		}
	}
	return all
}

func deepClone(n *exprNode) *exprNode {
	c := *n
	c.children = nil
	for _, ch := range n.children {
		c.children = append(c.children, deepClone(ch))
	}
	return &c
}

// bloomTree builds the abstract *BloomExpression for a tree (nil for kind nil).
func (w *World) bloomTree(n *exprNode) AVal {
	if n.kind == "nil" {
		return AVal{k: aNil}
	}
	return ptrTo(w.bloomNode(n))
}

func (w *World) bloomNode(n *exprNode) AVal {
	f := map[string]AVal{}
	switch n.kind {
	case "condnil":
		f["ExpressionType"] = aStr("CONDITION")
	case "cond":
		f["ExpressionType"] = aStr("CONDITION")
		c := map[string]AVal{"Type": aStr(n.condType), "Field": aStr(fmt.Sprintf("f%d", n.id)), "Token": aStr(fmt.Sprintf("t%d", n.id))}
		f["Condition"] = ptrTo(w.objOf("BloomCondition", c))
	case "condunknown":
		f["ExpressionType"] = aStr("CONDITION")
		f["Condition"] = ptrTo(w.objOf("BloomCondition", map[string]AVal{"Type": aStr("NO_SUCH_CONDITION")}))
	case "and", "or":
		f["ExpressionType"] = aStr(strings.ToUpper(n.kind))
		var cs []AVal
		for _, c := range n.children {
			cs = append(cs, w.bloomNode(c))
		}
		f["Children"] = sliceOf(cs...)
	case "unknown":
		f["ExpressionType"] = aStr("NO_SUCH_TYPE")
	}
	return w.objOf("BloomExpression", f)
}

// bloomKey is the filter key a condition leaf tests.
func bloomKey(n *exprNode) string {
	switch n.condType {
	case "FIELD":
		return fmt.Sprintf("f%d", n.id)
	case "TOKEN":
		return fmt.Sprintf("t%d", n.id)
	}
	return fmt.Sprintf("f%d::t%d", n.id, n.id)
}

// pruneVerdict interprets evaluateBloomExpression on the tree with filters
// answering `present` for each leaf's key.
func (w *World) pruneVerdict(n *exprNode, present map[string]bool, nilFilters bool) (bool, string) {
	fn := w.fn("BloomSearchEngine.evaluateBloomExpression")
	if fn == nil {
		return false, "evaluateBloomExpression not found"
	}
	filter := ptrTo(AVal{k: aObj, obj: &AObj{f: map[int]*ACell{}}})
	if nilFilters {
		filter = AVal{k: aNil}
	}
	in := &interp{w: w}
	in.ext = func(callee string, args []AVal) (AVal, bool) {
		if strings.HasSuffix(callee, "BloomFilter).TestString") && len(args) == 2 && args[1].k == aConst {
			return aBool(present[constant.StringVal(args[1].c)]), true
		}
		return AVal{}, false
	}
	res, ab := in.run(fn, []AVal{aUnk("engine"), filter, filter, filter, w.bloomTree(n)})
	if ab != "" {
		return false, ab
	}
	b, ok := res[0].isBool()
	if !ok {
		return false, "non-constant verdict " + res[0].String()
	}
	return b, ""
}

// rowVerdict compiles the tree with compileBloomExpression and evaluates the
// compiled node with evalMatcherNode on the satisfaction vector derived from
// the same assignment.
func (w *World) rowVerdict(n *exprNode, present map[string]bool) (bool, string) {
	comp := w.fn("compiledRowMatcher.compileBloomExpression")
	evalFn := w.fn("evalMatcherNode")
	if comp == nil || evalFn == nil {
		return false, "compileBloomExpression/evalMatcherNode not found"
	}
	m := ptrTo(w.objOf("compiledRowMatcher", nil))
	in := &interp{w: w}
	res, ab := in.run(comp, []AVal{m, w.bloomTree(n)})
	if ab != "" {
		return false, "compile: " + ab
	}
	// satisfaction vector: conditions were appended in compile order; map each to its leaf by field/token
	conds := w.fieldOf(m.cell.v, "compiledRowMatcher", "conditions")
	var sat []AVal
	if conds.k == aSlice {
		for _, c := range conds.cells {
			kind := w.fieldOf(c.v, "rowCondition", "kind")
			field := w.fieldOf(c.v, "rowCondition", "field")
			token := w.fieldOf(c.v, "rowCondition", "token")
			key := ""
			if kind.k == aConst {
				k, _ := constant.Int64Val(kind.c)
				fs, ts := "", ""
				if field.k == aConst {
					fs = constant.StringVal(field.c)
				}
				if token.k == aConst {
					ts = constant.StringVal(token.c)
				}
				switch k {
				case 0:
					key = fs
				case 1:
					key = ts
				case 2:
					key = fs + "::" + ts
				}
			}
			sat = append(sat, aBool(present[key]))
		}
	}
	in2 := &interp{w: w}
	res2, ab := in2.run(evalFn, []AVal{ptrTo(res[0]), sliceOf(sat...)})
	if ab != "" {
		return false, "eval: " + ab
	}
	b, ok := res2[0].isBool()
	if !ok {
		return false, "non-constant row verdict"
	}
	return b, ""
}

func bloomLeafAlphabet() []*exprNode {
	return []*exprNode{
		{kind: "condnil"},
		{kind: "cond", condType: "FIELD"},
		{kind: "cond", condType: "TOKEN"},
		{kind: "cond", condType: "FIELD_TOKEN"},
		{kind: "condunknown"},
		{kind: "and"}, // empty And
		{kind: "or"},  // empty Or
		{kind: "unknown"},
	}
}

// assignments enumerates all truth assignments over the tree's leaf keys.
func assignments(n *exprNode, f func(present map[string]bool)) {
	var ls []*exprNode
	n.leaves(&ls)
	k := len(ls)
	if k > 4 {
		k = 4
	}
	for mask := 0; mask < 1<<k; mask++ {
		p := map[string]bool{}
		for i := 0; i < len(ls); i++ {
			bit := i
			if bit >= k {
				bit = k - 1
			}
			p[bloomKey(ls[i])] = mask&(1<<bit) != 0
		}
		f(p)
	}
}

// ---------------------------------------------------------------------------
// prefilter family

func (w *World) prefilterNode(n *exprNode) AVal {
	f := map[string]AVal{}
	switch n.kind {
	case "condnil":
		f["ExpressionType"] = aStr("CONDITION")
	case "and", "or":
		f["ExpressionType"] = aStr(strings.ToUpper(n.kind))
		var cs []AVal
		for _, c := range n.children {
			cs = append(cs, w.prefilterNode(c))
		}
		f["Children"] = sliceOf(cs...)
	case "unknown":
		f["ExpressionType"] = aStr("NO_SUCH_TYPE")
	case "cond":
		f["ExpressionType"] = aStr("CONDITION")
		switch n.condType {
		case "PARTITION_NILSUB":
			f["Condition"] = ptrTo(w.objOf("PrefilterCondition", map[string]AVal{"ConditionType": aStr("PARTITION")}))
		case "MINMAX_NILSUB":
			f["Condition"] = ptrTo(w.objOf("PrefilterCondition", map[string]AVal{"ConditionType": aStr("MINMAX")}))
		case "PARTITION_MISSING":
			f["Condition"] = ptrTo(w.objOf("PrefilterCondition", map[string]AVal{"ConditionType": aStr("PARTITION"), "PartitionCondition": ptrTo(w.objOf("StringCondition", map[string]AVal{"Operator": aStr("EQ")}))}))
		case "MINMAX_MISSING":
			f["Condition"] = ptrTo(w.objOf("PrefilterCondition", map[string]AVal{"ConditionType": aStr("MINMAX"), "MinMaxFieldName": aStr("k"), "MinMaxCondition": ptrTo(w.objOf("NumericCondition", map[string]AVal{"Operator": aStr("EQ")}))}))
		case "UNKNOWN_COND":
			f["Condition"] = ptrTo(w.objOf("PrefilterCondition", map[string]AVal{"ConditionType": aStr("NO_SUCH_CONDITION")}))
		}
	}
	return w.objOf("PrefilterExpression", f)
}

// prefilterVerdict interprets evaluatePrefilterExpression on a block whose
// partition ID is empty and whose MinMaxIndexes lacks every key.
func (w *World) prefilterVerdict(n *exprNode) (bool, string) {
	fn := w.fn("evaluatePrefilterExpression")
	if fn == nil {
		return false, "evaluatePrefilterExpression not found"
	}
	meta := ptrTo(w.objOf("DataBlockMetadata", map[string]AVal{"PartitionID": aStr(""), "MinMaxIndexes": {k: aMap, has: 2}}))
	var expr AVal
	if n.kind == "nil" {
		expr = AVal{k: aNil}
	} else {
		expr = ptrTo(w.prefilterNode(n))
	}
	in := &interp{w: w}
	res, ab := in.run(fn, []AVal{meta, expr})
	if ab != "" {
		return false, ab
	}
	b, ok := res[0].isBool()
	if !ok {
		return false, "non-constant verdict"
	}
	return b, ""
}

// expected semantics of a constant tree under the documented rules.
func constExpected(n *exprNode, leaf func(*exprNode) (bool, bool)) (bool, bool) {
	switch n.kind {
	case "nil", "condnil":
		return true, true
	case "unknown", "condunknown":
		return false, true
	case "cond":
		return leaf(n)
	case "or":
		if len(n.children) == 0 {
			return false, true
		}
		for _, c := range n.children {
			v, ok := constExpected(c, leaf)
			if !ok {
				return false, false
			}
			if v {
				return true, true
			}
		}
		return false, true
	case "and":
		for _, c := range n.children {
			v, ok := constExpected(c, leaf)
			if !ok {
				return false, false
			}
			if !v {
				return false, true
			}
		}
		return true, true
	}
	return false, false
}
