package main

import (
	"encoding/json"
	"flag"
	"fmt"
	"go/types"
	"os"
	"runtime/debug"
	"sort"
	"strconv"
	"strings"
	"time"

	"golang.org/x/tools/go/ssa"
)

type propFunc func(w *World, r *Report, tier string) propMeta

var registry = map[string]propFunc{}

func register(id string, f propFunc) { registry[id] = f }

func verifDir() string {
	if d := os.Getenv("BSCHECK_VERIF"); d != "" {
		return d
	}
	return "/verif"
}

func main() {
	prop := flag.String("property", "", "property id (C01..C27)")
	tier := flag.String("tier", "quick", "quick|thorough")
	replay := flag.String("replay", "", "replay file: re-evaluate the named rule instance on the current tree")
	dumpfn := flag.String("dumpfn", "", "debug: dump a function's SSA with access paths")
	list := flag.Bool("list", false, "list functions")
	flag.Parse()

	if t := os.Getenv("VERIF_TIER"); t != "" && *tier == "" {
		*tier = t
	}
	seed := 0
	if s := os.Getenv("VERIF_SEED"); s != "" {
		seed, _ = strconv.Atoi(s)
	}
	start := time.Now()

	if *replay != "" {
		os.Exit(doReplay(*replay))
	}

	w, err := loadWorld(repoDir(), os.Getenv("BSCHECK_TAGS"), os.Getenv("BSCHECK_GOARCH"))
	if err != nil {
		failHard(*prop, *tier, seed, start, "load: "+err.Error())
	}
	if *list {
		for _, f := range w.Funcs {
			var ps []string
			for _, p := range f.Params {
				ps = append(ps, p.Name())
			}
			fmt.Println(w.name(f) + "\t" + w.sigKey(f) + "\t" + strings.Join(ps, ","))
		}
		scope := w.Pkg.Types.Scope()
		for _, n := range scope.Names() {
			if tn, ok := scope.Lookup(n).(*types.TypeName); ok {
				if st, ok := tn.Type().Underlying().(*types.Struct); ok {
					var fs []string
					for i := 0; i < st.NumFields(); i++ {
						fs = append(fs, st.Field(i).Name()+":"+w.typeName(st.Field(i).Type()))
					}
					fmt.Println("STRUCT\t" + n + "\t" + strings.Join(fs, ","))
				}
			}
		}
		return
	}
	if *dumpfn != "" {
		dumpFunc(w, *dumpfn)
		return
	}
	f, ok := registry[*prop]
	if !ok {
		fmt.Fprintf(os.Stderr, "unknown property %q\n", *prop)
		os.Exit(2)
	}
	code := runProp(w, *prop, *tier, seed, start, f)
	os.Exit(code)
}

func runProp(w *World, prop, tier string, seed int, start time.Time, f propFunc) (code int) {
	r := newReport(prop, w)
	var meta propMeta
	func() {
		defer func() {
			if p := recover(); p != nil {
				r.undecided(prop+".panic", "checker", "-", fmt.Sprintf("checker panicked: %v\n%s", p, debug.Stack()))
			}
		}()
		if len(w.Funcs) < 200 {
			r.undecided(prop+".load", "package", "-", fmt.Sprintf("only %d source functions loaded; expected >= 200", len(w.Funcs)))
		}
		meta = f(w, r, tier)
	}()
	extra := map[string]any{}
	if tier == "thorough" {
		thoroughExtras(w, r, prop, extra)
	}
	return r.emit(verifDir(), tier, seed, start, meta, extra)
}

// failHard reports an analysis that could not even start as undecided.
func failHard(prop, tier string, seed int, start time.Time, msg string) {
	fmt.Println("bscheck: " + msg)
	dir := verifDir()
	os.MkdirAll(dir+"/evidence/replay", 0o755)
	path := fmt.Sprintf("%s/evidence/replay/%s-1.json", dir, prop)
	data, _ := json.MarshalIndent(map[string]any{"property": prop, "kind": "undecided", "detail": msg}, "", " ")
	os.WriteFile(path, data, 0o644)
	evd := evidence{PropertyID: prop, Tier: tier, Seed: seed, Level: "other", Coverage: map[string]any{
		"explanation": "the analysis could not load /repo; nothing was decided: " + msg, "obligations": 1, "discharged": 0, "evaluations": 1, "distinct_nontrivial": 0,
	}, WallS: time.Since(start).Seconds(), Violations: 1}
	d2, _ := json.MarshalIndent(evd, "", " ")
	os.WriteFile(fmt.Sprintf("%s/evidence/%s.json", dir, prop), d2, 0o644)
	fmt.Printf("VIOLATION property=%s replay=%s\n", prop, path)
	os.Exit(1)
}

func doReplay(path string) int {
	data, err := os.ReadFile(path)
	if err != nil {
		fmt.Println(err)
		return 2
	}
	var rp map[string]any
	if err := json.Unmarshal(data, &rp); err != nil {
		fmt.Println(err)
		return 2
	}
	prop, _ := rp["property"].(string)
	rule, _ := rp["rule"].(string)
	construct, _ := rp["construct"].(string)
	f, ok := registry[prop]
	if !ok {
		fmt.Println("unknown property in replay file:", prop)
		return 2
	}
	w, err := loadWorld(repoDir(), os.Getenv("BSCHECK_TAGS"), os.Getenv("BSCHECK_GOARCH"))
	if err != nil {
		fmt.Println("load:", err)
		return 1
	}
	r := newReport(prop, w)
	f(w, r, "quick")
	r.finishFloors()
	known, _ := loadKnown(verifDir() + "/known-findings.json")
	r.applyKnown(known)
	fmt.Printf("replay property=%s rule=%s construct=%s\n  rule requires: %s\n", prop, rule, construct, r.rules[rule])
	found := false
	code := 0
	for _, o := range r.Obs {
		if o.Rule == rule && o.Construct == construct {
			found = true
			fmt.Printf("  now: %s at %s: %s\n", o.Verdict, o.Site, o.Detail)
			if o.Verdict == Violation || o.Verdict == Undecided {
				code = 1
			}
		}
	}
	if !found {
		fmt.Println("  the construct no longer exists on the current tree (rule instance not produced)")
	}
	return code
}

func dumpFunc(w *World, name string) {
	var fns []*ssa.Function
	for _, f := range w.Funcs {
		if w.name(f) == name || baseName(w.name(f)) == name {
			fns = append(fns, f)
		}
	}
	sort.Slice(fns, func(i, j int) bool { return w.name(fns[i]) < w.name(fns[j]) })
	for _, fn := range fns {
		fmt.Printf("func %s  (synthetic=%q)\n", w.name(fn), fn.Synthetic)
		for _, b := range fn.Blocks {
			fmt.Printf(" b%d (%s) preds=%d succs=%v\n", b.Index, b.Comment, len(b.Preds), succIdx(b))
			for _, in := range b.Instrs {
				s := in.String()
				if v, ok := in.(ssa.Value); ok {
					fmt.Printf("   %-5s = %-60s | %s   [%s]\n", v.Name(), s, w.path(v), w.instrPos(in))
				} else {
					fmt.Printf("   %-5s   %-60s   [%s]\n", "", s, w.instrPos(in))
				}
			}
		}
	}
}

func succIdx(b *ssa.BasicBlock) []int {
	var out []int
	for _, s := range b.Succs {
		out = append(out, s.Index)
	}
	return out
}
