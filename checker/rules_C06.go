package main

import (
	"fmt"
	"strings"

	"golang.org/x/tools/go/ssa"
)

// C06 — acknowledgements are truthful: nil means durable, error means absent.

func init() { register("C06", checkC06) }

// storeCalls labels the store calls of the write path.
var storeCalls = map[string]string{
	"DataStore.CreateFile":                    "CreateFile",
	"DataStore.TombstoneFile":                 "Tombstone",
	"DataStore.OpenFile":                      "OpenFile",
	"MetaStore.Update":                        "Update",
	"io.WriteCloser.Close":                    "Close",
	"io.WriteCloser.Write":                    "Write",
	"io.Writer.Write":                         "Write",
	"WriteFileFooter":                         "Footer",
	"blockFilterRegionWriter.finish":          "finish",
	"BloomSearchEngine.abortFileWriter":       "abort",
	"context.Context.Err":                     "ctxErr",
	"compressionEncoders.finalizeCompression": "finalize",
}

// answerSite describes a call that answers waiters.
type answerSite struct {
	fn    *ssa.Function
	call  ssa.Instruction
	value ssa.Value
	chans ssa.Value
}

// answerSites lists every call of the two answer helpers outside the helpers.
func answerSites(w *World) []answerSite {
	var out []answerSite
	for _, s := range w.callSites("sendToChannelsWithContext", "sendOptionalWithContext") {
		host := baseName(w.name(s.Fn))
		if host == "sendToChannelsWithContext" || host == "sendOptionalWithContext" {
			continue
		}
		c := callOf(s.Instr)
		if len(c.Args) != 3 {
			continue
		}
		out = append(out, answerSite{fn: s.Fn, call: s.Instr, value: c.Args[2], chans: c.Args[1]})
	}
	return out
}

// writePathClassifier: store-call labels + cleanup + durable + class labels.
func writePathClassifier(w *World) *Classifier {
	extra := &Classifier{
		Call: func(site ssa.Instruction, c *ssa.CallCommon) *Event {
			n := w.calleeName(c)
			switch {
			case n == "BloomSearchEngine.abortFileWriter":
				return ev("cleanup")
			case n == "DataStore.TombstoneFile":
				if len(c.Args) == 2 && strings.Contains(w.path(c.Args[1]), "call:DataStore.CreateFile@") {
					return ev("cleanup")
				}
			}
			return nil
		},
		Cond: func(c Cond, taken bool) *Event {
			if (c.Op == "==" && taken) || (c.Op == "!=" && !taken) {
				if isZero(c.Y) {
					if isLenOf(w, c.X, "p:req.rows") {
						return ev("class:emptybatch")
					}
					if isLenOf(w, c.X, "p:flushReq.partitionBuffers") {
						return ev("class:ackonly")
					}
				}
			}
			return nil
		},
	}
	return combine(namedCalls(w, storeCalls), extra)
}

func checkC06(w *World, r *Report, tier string) propMeta {
	c06R1R3(w, r)
	c06R2(w, r)
	c06AbortFileWriter(w, r)
	c06R4(w, r)
	c06R5(w, r)
	return propMeta{
		explanation: "Truthfulness of acknowledgements as path rules: every nil answer is an empty batch, an ack-only flush, or follows writer.Close-ok then MetaStore.Update-ok for the file created on that path; every error answer is provably non-nil; every failure exit after CreateFile passes the abort/tombstone cleanup before answering; abortFileWriter disposes of the writer and tombstones the pointer on every path; processIngestRequest validates (marshal, size) before it mutates any shared buffer. C06.R5 (publish order inside renameOnCloseFile.Close) is decided under C15.R1.",
		notDecided:  "'visible exactly once on a fresh engine' (needs execution); MetaStore atomicity is an assumption of the property (checked for the shipped stores under C14).",
	}
}

func c06R1R3(w *World, r *Report) {
	r.rule("C06.R1", "nil means durable: a nil answer is either an empty batch, an ack-only flush request, or follows Close-ok then Update-ok (in that order) for the file created on that path", 3)
	r.rule("C06.R3", "error answers are non-nil: every answer that is not a C06.R1 site carries a value that is provably a non-nil error", 10)
	cl := writePathClassifier(w)
	flows := map[*ssa.Function]*Flow{}
	for _, a := range answerSites(w) {
		fl := flows[a.fn]
		if fl == nil {
			fl = newFlow(w, a.fn, cl)
			flows[a.fn] = fl
		}
		f := fl.Before(a.call)
		host := w.name(a.fn)
		if f == nil {
			continue
		}
		if isNilConst(a.value) {
			var class string
			switch {
			case f.Must("class:emptybatch"):
				class = "emptybatch"
			case f.Must("class:ackonly"):
				class = "ackonly"
			case f.Must("ok:Close") && f.Must("ok:Update"):
				class = "durable"
			}
			key := host + ":nil-answer(" + class + ")"
			if class == "" {
				r.bad("C06.R1", host+":nil-answer(unjustified)", w.instrPos(a.call),
					fmt.Sprintf("nil ('durable') is sent on a path that is not an empty batch / ack-only request and has not passed both Close-ok (%v) and Update-ok (%v)", f.Must("ok:Close"), f.Must("ok:Update")))
				continue
			}
			if class == "durable" {
				// order: Update only after Close-ok; same file
				okOrder := true
				for _, in := range w.callSitesIn(a.fn, "MetaStore.Update") {
					ff := fl.Before(in)
					if ff == nil || !ff.Must("ok:Close") || !ff.Must("ok:Footer") {
						okOrder = false
					}
				}
				r.check(okOrder, "C06.R1", key, w.instrPos(a.call), "nil only after Close-ok then Update-ok", "MetaStore.Update is reachable before the writer's Close (and footer) succeeded: a pointer to an unpublished file could be committed and acknowledged")
			} else {
				r.ok("C06.R1", key, w.instrPos(a.call), "nil answer for "+class)
			}
			continue
		}
		// R3
		key := host + ":err-answer(" + describeErrValue(w, a.value) + ")"
		switch v := a.value.(type) {
		case *ssa.Parameter:
			// closure parameter: every call site must pass a provably non-nil error
			idx := -1
			for i, p := range a.fn.Params {
				if p == v {
					idx = i
				}
			}
			okAll, n := true, 0
			for _, s := range w.callSites(w.name(a.fn)) {
				c := callOf(s.Instr)
				if w.staticCallee(c) != a.fn || idx < 0 || idx >= len(c.Args) {
					continue
				}
				n++
				if !w.nonNilAt(c.Args[idx], s.Instr) {
					okAll = false
					r.bad("C06.R3", key+"@caller:"+describeErrValue(w, c.Args[idx]), w.instrPos(s.Instr), "the error handed to "+host+" may be nil here: waiters would read 'durable' for a failed flush")
				}
			}
			if okAll {
				r.check(n > 0, "C06.R3", key, w.instrPos(a.call), fmt.Sprintf("parameter is a provably non-nil error at all %d call sites", n), "answer helper is never called")
			}
		default:
			r.check(w.nonNilAt(a.value, a.call), "C06.R3", key, w.instrPos(a.call), "provably non-nil error", "the answered value is not provably non-nil on this path and the path is not a durable/empty/ack-only one: a failure may be acknowledged as success")
		}
	}
}

func describeErrValue(w *World, v ssa.Value) string {
	p := w.path(v)
	if i := strings.Index(p, "@"); i >= 0 {
		j := strings.Index(p[i:], "#")
		if j >= 0 {
			return p[:i] + p[i+j:]
		}
		return p[:i]
	}
	return p
}

// c06R2: error means cleaned up.
func c06R2(w *World, r *Report) {
	const rule = "C06.R2"
	r.rule(rule, "error means cleaned up: every return of a flush/merge-group function reached after CreateFile-ok and without Update-ok (flush) / Close-ok (merge group) has passed abortFileWriter or TombstoneFile on the created pointer", 10)
	for _, s := range w.callSites("DataStore.CreateFile") {
		fn := s.Fn
		if w.name(fn) == "FileSystemDataStore.CreateFile" {
			continue
		}
		fl := flowWithSummaries(w, fn, writePathClassifier(w), false)
		commits := len(w.callSitesIn(fn, "MetaStore.Update")) > 0
		for i, ret := range fl.Returns() {
			f := fl.Before(ret)
			if !f.May("ok:CreateFile") {
				r.ok(rule, fmt.Sprintf("%s:return#%d(before-create)", w.name(fn), i), w.instrPos(ret), "no file created on this path")
				continue
			}
			done := f.Must("ok:Close")
			if commits {
				done = f.Must("ok:Update")
			}
			if done {
				r.ok(rule, fmt.Sprintf("%s:return#%d(success)", w.name(fn), i), w.instrPos(ret), "success path")
				continue
			}
			r.check(f.Must("cleanup"), rule, fmt.Sprintf("%s:return#%d(failure)", w.name(fn), i), w.instrPos(ret), "partial file aborted/tombstoned before returning", "a failure exit after CreateFile leaves the partial file neither aborted nor tombstoned: it can become visible or leak")
		}
		// the answer inside a cleanup closure follows the cleanup
		for _, a := range answerSites(w) {
			if a.fn.Parent() == nil || outermost(a.fn) != fn {
				continue
			}
			cfl := newFlow(w, a.fn, writePathClassifier(w))
			sum := cfl.Before(a.call)
			hasCleanup := len(w.callSitesIn(a.fn, "BloomSearchEngine.abortFileWriter", "DataStore.TombstoneFile")) > 0
			if hasCleanup {
				r.check(sum.Must("cleanup"), rule, w.name(a.fn)+":answer-after-cleanup", w.instrPos(a.call), "error delivered after the cleanup", "the error is delivered before the partial file is cleaned up")
			}
		}
	}
}

func c06AbortFileWriter(w *World, r *Report) {
	const rule = "C06.R2"
	fn := fnOrUndecided(w, r, rule, "BloomSearchEngine.abortFileWriter")
	if fn == nil {
		return
	}
	cl := &Classifier{
		Call: func(site ssa.Instruction, c *ssa.CallCommon) *Event {
			n := w.calleeName(c)
			switch {
			case c.IsInvoke() && c.Method.Name() == "Abort":
				return ev("disposed")
			case n == "io.WriteCloser.Close" && w.path(c.Value) == "p:writer":
				return ev("disposed")
			case n == "DataStore.TombstoneFile" && len(c.Args) == 2 && w.path(c.Args[1]) == "p:filePointerBytes":
				return ev("tombstoned")
			}
			return nil
		},
		CallEdge: func(call ssa.Value, outcome string) *Event {
			if _, ok := call.(*ssa.TypeAssert); ok && outcome == "true" {
				return ev("abortable")
			}
			return nil
		},
		Cond: func(c Cond, taken bool) *Event {
			if c.Op == "truth" && taken && w.path(c.X) == "p:closeAttempted" {
				return ev("disposed") // Close was already attempted by the caller
			}
			return nil
		},
	}
	fl := newFlow(w, fn, cl)
	for i, ret := range fl.Returns() {
		f := fl.Before(ret)
		r.check(f.Must("disposed") && f.Must("tombstoned"), rule, fmt.Sprintf("abortFileWriter:return#%d", i), w.instrPos(ret), "writer aborted/closed and pointer tombstoned on every path", fmt.Sprintf("abortFileWriter can return with writer disposed=%v pointer tombstoned=%v", f.Must("disposed"), f.Must("tombstoned")))
	}
	// Abort is preferred over Close when implemented: Close must not be reachable on the Abort-capable edge
	eachInstr(fn, func(in ssa.Instruction) {
		if c, ok := in.(*ssa.Call); ok && w.calleeName(&c.Call) == "io.WriteCloser.Close" {
			ff := fl.Before(in)
			r.check(ff != nil && !ff.May("abortable"), rule, "abortFileWriter:close-only-without-abort", w.instrPos(in), "Close only for writers without Abort", "Close (which publishes a rename-on-close writer) is reachable for a writer that implements Abort")
		}
	})
}

// c06R4: validate before mutate.
func c06R4(w *World, r *Report) {
	const rule = "C06.R4"
	r.rule(rule, "validate before mutate: in processIngestRequest no json.Marshal / size check is reachable after a mutation of shared buffers; error answers after a mutation are only the rollback-protected encoder failure and the two frozen in-memory write failures", 6)
	fn := fnOrUndecided(w, r, rule, "BloomSearchEngine.processIngestRequest")
	if fn == nil {
		return
	}
	cl := &Classifier{
		Call: func(site ssa.Instruction, c *ssa.CallCommon) *Event {
			n := w.calleeName(c)
			switch {
			case n == "bloomEntrySets.indexRow":
				return ev("mut:rows")
			case n == "io.Writer.Write":
				return ev("mut:rows", "call:bufwrite")
			case n == "builtin.delete" && w.path(c.Args[0]) == "p:partitionBuffers":
				return &Event{May: []string{"rollback"}, Must: []string{"rollback-site"}}
			}
			return nil
		},
		CallEdge: func(call ssa.Value, outcome string) *Event {
			if c, ok := call.(*ssa.Call); ok && w.calleeName(&c.Call) == "io.Writer.Write" && outcome == "fail" {
				return ev("fail:bufwrite")
			}
			return nil
		},
		Instr: func(in ssa.Instruction) *Event {
			switch x := in.(type) {
			case *ssa.MapUpdate:
				p := w.path(x.Map)
				if p == "p:partitionBuffers" {
					return ev("mut:buffers")
				}
				if strings.HasSuffix(p, ".minMaxIndexes") {
					return ev("mut:rows")
				}
			case *ssa.Store:
				p := w.path(x.Addr)
				if p == "p:bufferedRowCount" || p == "p:bufferedBytes" {
					return ev("mut:rows")
				}
				if strings.HasSuffix(p, ".rowCount") || strings.HasSuffix(p, ".uncompressedSize") {
					if _, fresh := stripToAlloc(baseOfAddr(x.Addr)); !fresh {
						return ev("mut:rows")
					}
				}
			}
			return nil
		},
	}
	fl := newFlow(w, fn, cl)
	n := 0
	for _, in := range w.callSitesIn(fn, "encoding/json.Marshal") {
		n++
		f := fl.Before(in)
		r.check(!f.May("mut:rows") && !f.May("mut:buffers"), rule, fmt.Sprintf("processIngestRequest:marshal#%d", n), w.instrPos(in), "marshal happens before any buffer mutation", "json.Marshal is reachable after shared buffers were mutated: an unmarshalable row would leave part of its batch buffered")
	}
	if n == 0 {
		r.undecided(rule, "processIngestRequest:marshal", w.pos(fn.Pos()), "no json.Marshal call found: validation anchor lost")
	}
	for _, a := range answerSites(w) {
		if a.fn != fn || isNilConst(a.value) {
			continue
		}
		f := fl.Before(a.call)
		key := "processIngestRequest:err-answer(" + describeErrValue(w, a.value) + errTextKey(w, a.value) + ")"
		switch {
		case f.Must("fail:bufwrite"):
			r.ok(rule, key+"[frozen exception: in-memory write cannot fail]", w.instrPos(a.call), "sink is a bytes.Buffer behind snappy/zstd; no failing input exists")
		case f.May("mut:rows"):
			r.bad(rule, key, w.instrPos(a.call), "a batch is rejected after some of its rows were already indexed/buffered: the rejected batch leaves a trace")
		case f.May("mut:buffers"):
			r.check(f.May("rollback"), rule, key, w.instrPos(a.call), "buffers created for the failed batch are removed first", "partition buffers created for this batch are not removed before the batch is rejected")
		default:
			r.ok(rule, key, w.instrPos(a.call), "rejection before any mutation")
		}
	}
}

func baseOfAddr(v ssa.Value) ssa.Value {
	if fa, ok := v.(*ssa.FieldAddr); ok {
		return fa.X
	}
	return v
}

// errTextKey distinguishes fmt.Errorf sites by their constant format string.
func errTextKey(w *World, v ssa.Value) string {
	c, ok := v.(*ssa.Call)
	if !ok || len(c.Call.Args) == 0 {
		return ""
	}
	if k, ok := c.Call.Args[0].(*ssa.Const); ok && k.Value != nil {
		s := k.Value.ExactString()
		if len(s) > 34 {
			s = s[:34]
		}
		return ":" + s
	}
	return ""
}
