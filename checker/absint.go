package main

// E5/E6 core: a small abstract interpreter over SSA.
//
// It evaluates a package function on *abstract* inputs — never on concrete
// program data: constants, nil/non-nil shapes (a struct with chosen
// discriminator fields, an empty or n-element slice, a map that has/lacks a
// key), and *order symbols* whose only observable property is how they compare
// with each other and with the pinned extremes (math.MinInt64 = ⊥,
// math.MaxInt64 = ⊤) under a given total preorder. Control flow must be
// determined by those inputs; a branch on anything else aborts the run as
// "data-dependent" (the caller decides whether that is acceptable). This is
// abstract interpretation over a finite domain: for comparison-only code the
// preorder abstraction is exact, and for the expression evaluators the
// constant cases (nil, empty, unknown discriminator) have a unique path.

import (
	"fmt"
	"go/constant"
	"go/token"
	"go/types"
	"math"

	"golang.org/x/tools/go/ssa"
)

type akind int

const (
	aUnknown akind = iota
	aConst
	aNil
	aPtr
	aObj
	aSym
	aSlice
	aTuple
	aFunc
	aMap
)

type ACell struct{ v AVal }

type AObj struct{ f map[int]*ACell }

type AVal struct {
	k     akind
	c     constant.Value
	cell  *ACell
	obj   *AObj
	sym   int
	cells []*ACell // slice elements / tuple components
	fn    *ssa.Function
	binds []AVal
	has   int // aMap: 1 key present, 2 key absent, 0 unknown
	melem *AVal
	why   string
}

func aBool(b bool) AVal   { return AVal{k: aConst, c: constant.MakeBool(b)} }
func aInt(n int64) AVal   { return AVal{k: aConst, c: constant.MakeInt64(n)} }
func aStr(s string) AVal  { return AVal{k: aConst, c: constant.MakeString(s)} }
func aSymbol(id int) AVal { return AVal{k: aSym, sym: id} }
func aUnk(why string) AVal {
	return AVal{k: aUnknown, why: why}
}

func (v AVal) isBool() (bool, bool) {
	if v.k == aConst && v.c != nil && v.c.Kind() == constant.Bool {
		return constant.BoolVal(v.c), true
	}
	return false, false
}

func (v AVal) String() string {
	switch v.k {
	case aConst:
		return v.c.ExactString()
	case aNil:
		return "nil"
	case aSym:
		return fmt.Sprintf("sym%d", v.sym)
	case aObj:
		return "struct"
	case aPtr:
		return "ptr"
	case aSlice:
		return fmt.Sprintf("slice[%d]", len(v.cells))
	case aTuple:
		return "tuple"
	case aFunc:
		return "func"
	case aMap:
		return "map"
	}
	return "?(" + v.why + ")"
}

func copyVal(v AVal) AVal {
	if v.k == aObj && v.obj != nil {
		n := &AObj{f: map[int]*ACell{}}
		for i, c := range v.obj.f {
			n.f[i] = &ACell{v: copyVal(c.v)}
		}
		return AVal{k: aObj, obj: n}
	}
	return v
}

func zeroVal(t types.Type) AVal {
	switch u := t.Underlying().(type) {
	case *types.Struct:
		o := &AObj{f: map[int]*ACell{}}
		for i := 0; i < u.NumFields(); i++ {
			o.f[i] = &ACell{v: zeroVal(u.Field(i).Type())}
		}
		return AVal{k: aObj, obj: o}
	case *types.Basic:
		switch {
		case u.Info()&types.IsBoolean != 0:
			return aBool(false)
		case u.Info()&types.IsString != 0:
			return aStr("")
		case u.Info()&types.IsNumeric != 0:
			return aInt(0)
		}
	case *types.Pointer, *types.Slice, *types.Map, *types.Interface, *types.Chan, *types.Signature:
		return AVal{k: aNil}
	case *types.Array:
		if u.Len() <= 16 {
			cells := make([]*ACell, u.Len())
			for i := range cells {
				cells[i] = &ACell{v: zeroVal(u.Elem())}
			}
			return AVal{k: aSlice, cells: cells}
		}
	}
	return aUnk("zero of " + t.String())
}

// Oracle answers comparisons between order symbols (and the pinned extremes).
type Oracle interface {
	// Cmp returns -1, 0, +1 for a ? b.
	Cmp(a, b int) int
}

// ConstOracle additionally places a symbol relative to integer constants.
type ConstOracle interface {
	Oracle
	CmpConst(sym int, c constant.Value) (int, bool)
}

// pointOracle abstracts "the symbol lies in the segment represented by rep":
// between two neighbouring constants of a comparison-only function every
// comparison has one truth value, so one representative decides the segment.
type pointOracle struct{ rep int64 }

func (p pointOracle) Cmp(a, b int) int { return 0 }
func (p pointOracle) CmpConst(sym int, c constant.Value) (int, bool) {
	v, ok := constant.Int64Val(constant.ToInt(c))
	if !ok {
		return 0, false
	}
	switch {
	case p.rep < v:
		return -1, true
	case p.rep > v:
		return 1, true
	}
	return 0, true
}

const (
	symBot = -1 // math.MinInt64
	symTop = -2 // math.MaxInt64
)

type interp struct {
	w       *World
	or      Oracle
	steps   int
	depth   int
	notes   []string // side conditions observed (e.g. conversions of symbols)
	abort   string
	onConv  func(x *ssa.Convert, v AVal) string // optional: returns a complaint
	strSyms bool                                // comparisons on strings are symbolic too
	// ext, when set, supplies the abstract result of a call the interpreter
	// does not enter (external functions, interface methods): e.g. "a bloom
	// filter test answers <assignment>[key]", "regexp.Compile succeeds".
	ext func(callee string, args []AVal) (AVal, bool)
}

type abortErr struct{ msg string }

func (in *interp) fail(format string, a ...any) {
	panic(abortErr{fmt.Sprintf(format, a...)})
}

// run evaluates fn on args; returns results or an abort reason.
func (in *interp) run(fn *ssa.Function, args []AVal) (res []AVal, aborted string) {
	defer func() {
		if p := recover(); p != nil {
			if ae, ok := p.(abortErr); ok {
				aborted = ae.msg
				return
			}
			panic(p)
		}
	}()
	res = in.call(fn, args, nil)
	return res, ""
}

func (in *interp) call(fn *ssa.Function, args []AVal, binds []AVal) []AVal {
	if in.depth > 8 {
		in.fail("call depth exceeded at %s", in.w.name(fn))
	}
	if len(fn.Blocks) == 0 {
		in.fail("no body for %s", fn.String())
	}
	in.depth++
	defer func() { in.depth-- }()
	env := map[ssa.Value]AVal{}
	for i, p := range fn.Params {
		if i < len(args) {
			env[p] = args[i]
		} else {
			env[p] = aUnk("missing arg")
		}
	}
	for i, fv := range fn.FreeVars {
		if i < len(binds) {
			env[fv] = binds[i]
		} else {
			env[fv] = aUnk("unbound freevar")
		}
	}
	var prev *ssa.BasicBlock
	b := fn.Blocks[0]
	for {
		var next *ssa.BasicBlock
		for _, instr := range b.Instrs {
			in.steps++
			if in.steps > 200000 {
				in.fail("step limit")
			}
			switch x := instr.(type) {
			case *ssa.Phi:
				idx := -1
				for i, p := range b.Preds {
					if p == prev {
						idx = i
					}
				}
				if idx < 0 {
					in.fail("phi without predecessor")
				}
				env[x] = in.val(env, x.Edges[idx])
			case *ssa.If:
				c := in.val(env, x.Cond)
				bv, ok := c.isBool()
				if !ok {
					in.fail("branch depends on data: %s at %s (%s)", in.w.path(x.Cond), in.w.instrPos(x), c.why)
				}
				if bv {
					next = b.Succs[0]
				} else {
					next = b.Succs[1]
				}
			case *ssa.Jump:
				next = b.Succs[0]
			case *ssa.Return:
				var out []AVal
				for _, r := range x.Results {
					out = append(out, in.val(env, r))
				}
				return out
			case *ssa.Panic:
				in.fail("panic reached at %s", in.w.instrPos(x))
			case *ssa.Store:
				addr := in.val(env, x.Addr)
				if addr.k != aPtr {
					// a store through an unknown pointer: ignore (cannot affect tracked state we can see)
					continue
				}
				addr.cell.v = copyVal(in.val(env, x.Val))
			case *ssa.DebugRef:
			case *ssa.MapUpdate:
				// not modelled; result maps become unknown
			case *ssa.Defer, *ssa.RunDefers, *ssa.Go, *ssa.Send:
				in.fail("unsupported instruction %T at %s", instr, in.w.instrPos(instr))
			default:
				if v, ok := instr.(ssa.Value); ok {
					env[v] = in.eval(env, v)
				}
			}
		}
		if next == nil {
			in.fail("fell off block %d of %s", b.Index, in.w.name(fn))
		}
		prev, b = b, next
	}
}

func (in *interp) val(env map[ssa.Value]AVal, v ssa.Value) AVal {
	switch x := v.(type) {
	case *ssa.Const:
		if x.IsNil() {
			return AVal{k: aNil}
		}
		if x.Value == nil {
			return zeroVal(x.Type())
		}
		if x.Value.Kind() == constant.Int {
			if n, ok := constant.Int64Val(x.Value); ok {
				if n == math.MaxInt64 {
					return aSymbol(symTop)
				}
				if n == math.MinInt64 {
					return aSymbol(symBot)
				}
			}
		}
		return AVal{k: aConst, c: x.Value}
	case *ssa.Function:
		return AVal{k: aFunc, fn: x}
	case *ssa.Global:
		return aUnk("global " + x.Name())
	case *ssa.Builtin:
		return aUnk("builtin")
	}
	if r, ok := env[v]; ok {
		return r
	}
	return aUnk("unevaluated " + v.Name())
}

func (in *interp) eval(env map[ssa.Value]AVal, v ssa.Value) AVal {
	switch x := v.(type) {
	case *ssa.Alloc:
		t := x.Type().Underlying().(*types.Pointer).Elem()
		return AVal{k: aPtr, cell: &ACell{v: zeroVal(t)}}
	case *ssa.FieldAddr:
		p := in.val(env, x.X)
		if p.k != aPtr {
			return aUnk("field of " + p.String())
		}
		if p.cell.v.k != aObj {
			return aUnk("field of non-struct " + p.cell.v.String())
		}
		c, ok := p.cell.v.obj.f[x.Field]
		if !ok {
			c = &ACell{v: aUnk("unset field " + fieldName(x.X.Type(), x.Field))}
			p.cell.v.obj.f[x.Field] = c
		}
		return AVal{k: aPtr, cell: c}
	case *ssa.Field:
		s := in.val(env, x.X)
		if s.k != aObj {
			return aUnk("field of " + s.String())
		}
		if c, ok := s.obj.f[x.Field]; ok {
			return c.v
		}
		return aUnk("unset field")
	case *ssa.IndexAddr:
		s := in.val(env, x.X)
		i := in.val(env, x.Index)
		if s.k == aPtr && s.cell.v.k == aSlice { // pointer to array
			s = s.cell.v
		}
		if s.k == aSlice && i.k == aConst {
			if n, ok := constant.Int64Val(i.c); ok && int(n) < len(s.cells) && n >= 0 {
				return AVal{k: aPtr, cell: s.cells[n]}
			}
			in.fail("index out of range in abstract slice at %s", in.w.instrPos(x))
		}
		return aUnk("indexaddr")
	case *ssa.Index:
		s := in.val(env, x.X)
		i := in.val(env, x.Index)
		if s.k == aSlice && i.k == aConst {
			if n, ok := constant.Int64Val(i.c); ok && int(n) < len(s.cells) && n >= 0 {
				return s.cells[n].v
			}
		}
		return aUnk("index")
	case *ssa.UnOp:
		o := in.val(env, x.X)
		switch x.Op {
		case token.MUL:
			if o.k == aPtr {
				return copyVal(o.cell.v)
			}
			return aUnk("load through " + o.String())
		case token.NOT:
			if b, ok := o.isBool(); ok {
				return aBool(!b)
			}
			return aUnk("!unknown")
		case token.SUB:
			if o.k == aConst {
				return AVal{k: aConst, c: constant.UnaryOp(token.SUB, o.c, 0)}
			}
			if o.k == aSym {
				in.fail("arithmetic on an order symbol at %s", in.w.instrPos(x))
			}
		}
		return aUnk("unop")
	case *ssa.BinOp:
		return in.binop(x, in.val(env, x.X), in.val(env, x.Y))
	case *ssa.Convert:
		o := in.val(env, x.X)
		if o.k == aSym && in.onConv != nil {
			if msg := in.onConv(x, o); msg != "" {
				in.notes = append(in.notes, msg)
			}
		}
		return o
	case *ssa.ChangeType:
		return in.val(env, x.X)
	case *ssa.MakeInterface:
		return in.val(env, x.X)
	case *ssa.ChangeInterface:
		return in.val(env, x.X)
	case *ssa.Extract:
		t := in.val(env, x.Tuple)
		if t.k == aTuple && x.Index < len(t.cells) {
			return t.cells[x.Index].v
		}
		return aUnk("extract")
	case *ssa.MakeClosure:
		var bs []AVal
		for _, b := range x.Bindings {
			bs = append(bs, in.val(env, b))
		}
		return AVal{k: aFunc, fn: x.Fn.(*ssa.Function), binds: bs}
	case *ssa.Lookup:
		m := in.val(env, x.X)
		if m.k == aMap && x.CommaOk {
			var elem AVal
			if m.melem != nil {
				elem = *m.melem
			} else {
				elem = aUnk("map element")
			}
			switch m.has {
			case 1:
				return tuple(elem, aBool(true))
			case 2:
				return tuple(zeroVal(x.Type().(*types.Tuple).At(0).Type()), aBool(false))
			}
		}
		if x.CommaOk {
			return tuple(aUnk("lookup"), aUnk("lookup ok"))
		}
		return aUnk("lookup")
	case *ssa.Slice:
		s := in.val(env, x.X)
		if s.k == aSlice && x.Low == nil && x.High == nil {
			return s
		}
		if s.k == aPtr && s.cell.v.k == aSlice {
			return s.cell.v
		}
		return aUnk("slice op")
	case *ssa.MakeSlice:
		n := in.val(env, x.Len)
		if n.k == aConst {
			if k, ok := constant.Int64Val(n.c); ok && k >= 0 && k <= 8 {
				cells := make([]*ACell, k)
				et := x.Type().Underlying().(*types.Slice).Elem()
				for i := range cells {
					cells[i] = &ACell{v: zeroVal(et)}
				}
				return AVal{k: aSlice, cells: cells}
			}
		}
		return aUnk("makeslice")
	case *ssa.TypeAssert:
		if x.CommaOk {
			return tuple(aUnk("typeassert"), aUnk("typeassert ok"))
		}
		return aUnk("typeassert")
	case *ssa.Call:
		return in.callInstr(env, x)
	case *ssa.Range, *ssa.Next, *ssa.Select, *ssa.MakeMap, *ssa.MakeChan:
		return aUnk(fmt.Sprintf("%T", v))
	}
	return aUnk(fmt.Sprintf("%T", v))
}

func tuple(vs ...AVal) AVal {
	t := AVal{k: aTuple}
	for _, v := range vs {
		t.cells = append(t.cells, &ACell{v: v})
	}
	return t
}

func (in *interp) callInstr(env map[ssa.Value]AVal, x *ssa.Call) AVal {
	c := &x.Call
	if b, ok := c.Value.(*ssa.Builtin); ok {
		switch b.Name() {
		case "len":
			a := in.val(env, c.Args[0])
			switch a.k {
			case aSlice:
				return aInt(int64(len(a.cells)))
			case aNil:
				return aInt(0)
			case aConst:
				if a.c.Kind() == constant.String {
					return aInt(int64(len(constant.StringVal(a.c))))
				}
			}
			return aUnk("len of " + a.String())
		case "append":
			base := in.val(env, c.Args[0])
			if len(c.Args) == 2 && (base.k == aSlice || base.k == aNil) {
				add := in.val(env, c.Args[1])
				if add.k == aSlice {
					out := AVal{k: aSlice, cells: []*ACell{}}
					for _, cc := range base.cells {
						out.cells = append(out.cells, &ACell{v: copyVal(cc.v)})
					}
					for _, cc := range add.cells {
						out.cells = append(out.cells, &ACell{v: copyVal(cc.v)})
					}
					return out
				}
			}
			return aUnk("append")
		}
		return aUnk("builtin " + b.Name())
	}
	if in.ext != nil {
		var args []AVal
		for _, a := range c.Args {
			args = append(args, in.val(env, a))
		}
		if c.IsInvoke() {
			args = append([]AVal{in.val(env, c.Value)}, args...)
		}
		if v, ok := in.ext(in.w.calleeName(c), args); ok {
			return v
		}
	}
	var callee *ssa.Function
	var binds []AVal
	if !c.IsInvoke() {
		if f := c.StaticCallee(); f != nil {
			callee = f
			if mc, ok := c.Value.(*ssa.MakeClosure); ok {
				for _, b := range mc.Bindings {
					binds = append(binds, in.val(env, b))
				}
			}
		} else if fv := in.val(env, c.Value); fv.k == aFunc {
			callee, binds = fv.fn, fv.binds
		}
	}
	nres := c.Signature().Results().Len()
	unknownResult := func(why string) AVal {
		if nres == 1 {
			return aUnk(why)
		}
		var vs []AVal
		for i := 0; i < nres; i++ {
			vs = append(vs, aUnk(why))
		}
		return tuple(vs...)
	}
	if callee == nil || !in.w.ours(callee) || len(callee.Blocks) == 0 {
		return unknownResult("result of " + in.w.calleeName(c))
	}
	var args []AVal
	for _, a := range c.Args {
		args = append(args, in.val(env, a))
	}
	res := in.call(callee, args, binds)
	if nres == 1 && len(res) == 1 {
		return res[0]
	}
	if nres == 0 {
		return aUnk("no result")
	}
	return tuple(res...)
}

func (in *interp) binop(x *ssa.BinOp, a, b AVal) AVal {
	isCmp := false
	switch x.Op {
	case token.EQL, token.NEQ, token.LSS, token.LEQ, token.GTR, token.GEQ:
		isCmp = true
	}
	// nil comparisons
	if isCmp && (a.k == aNil || b.k == aNil) && (x.Op == token.EQL || x.Op == token.NEQ) {
		o := a
		if a.k == aNil {
			o = b
		}
		var eq bool
		switch o.k {
		case aNil:
			eq = true
		case aPtr, aObj, aSlice, aFunc, aMap:
			eq = false
		default:
			return aUnk("nil test of " + o.String())
		}
		return aBool(eq == (x.Op == token.EQL))
	}
	// symbolic comparisons
	if isCmp && (a.k == aSym || b.k == aSym) {
		if a.k != aSym || b.k != aSym {
			// a symbol against an integer constant: answered by an oracle that
			// places the symbol relative to constants (interval-partition domain)
			if co, ok := in.or.(ConstOracle); ok {
				s, c, flip := a, b, false
				if a.k != aSym {
					s, c, flip = b, a, true
				}
				if c.k == aConst {
					if r, ok := co.CmpConst(s.sym, c.c); ok {
						if flip {
							r = -r
						}
						return aBool(cmpHolds(x.Op, r))
					}
				}
			}
			in.fail("order symbol compared with a non-symbol (%s vs %s) at %s", a.String(), b.String(), in.w.instrPos(x))
		}
		if in.or == nil {
			in.fail("no oracle for symbol comparison")
		}
		c := in.or.Cmp(a.sym, b.sym)
		return aBool(cmpHolds(x.Op, c))
	}
	if a.k == aSym || b.k == aSym {
		in.fail("arithmetic on an order symbol (%s) at %s", x.Op, in.w.instrPos(x))
	}
	if a.k == aConst && b.k == aConst {
		if isCmp {
			return aBool(constant.Compare(a.c, x.Op, b.c))
		}
		switch x.Op {
		case token.ADD, token.SUB, token.MUL, token.AND, token.OR, token.XOR:
			if a.c.Kind() == b.c.Kind() {
				return AVal{k: aConst, c: constant.BinaryOp(a.c, x.Op, b.c)}
			}
		}
	}
	return aUnk("binop " + x.Op.String() + " on " + a.String() + "," + b.String())
}

func cmpHolds(op token.Token, c int) bool {
	switch op {
	case token.EQL:
		return c == 0
	case token.NEQ:
		return c != 0
	case token.LSS:
		return c < 0
	case token.LEQ:
		return c <= 0
	case token.GTR:
		return c > 0
	case token.GEQ:
		return c >= 0
	}
	return false
}

// ---------------------------------------------------------------------------
// helpers to build abstract inputs

// objOf builds a struct value of the named type with the given fields set
// (others zero).
func (w *World) objOf(typeName string, fields map[string]AVal) AVal {
	obj := w.Pkg.Types.Scope().Lookup(typeName)
	if obj == nil {
		return aUnk("no type " + typeName)
	}
	v := zeroVal(obj.Type())
	st := obj.Type().Underlying().(*types.Struct)
	for i := 0; i < st.NumFields(); i++ {
		if fv, ok := fields[st.Field(i).Name()]; ok {
			v.obj.f[i] = &ACell{v: fv}
		}
	}
	return v
}

func ptrTo(v AVal) AVal { return AVal{k: aPtr, cell: &ACell{v: v}} }

func sliceOf(vs ...AVal) AVal {
	s := AVal{k: aSlice, cells: []*ACell{}}
	for _, v := range vs {
		s.cells = append(s.cells, &ACell{v: v})
	}
	return s
}

// typedConst returns the value of a package-level constant as an abstract constant.
func (w *World) pkgConst(name string) (AVal, bool) {
	c, ok := w.Pkg.Types.Scope().Lookup(name).(*types.Const)
	if !ok {
		return AVal{}, false
	}
	return AVal{k: aConst, c: c.Val()}, true
}

// field reads a field of an abstract struct by name.
func (w *World) fieldOf(v AVal, typeName, field string) AVal {
	obj := w.Pkg.Types.Scope().Lookup(typeName)
	if obj == nil || v.k != aObj {
		return aUnk("no field")
	}
	st := obj.Type().Underlying().(*types.Struct)
	for i := 0; i < st.NumFields(); i++ {
		if st.Field(i).Name() == field {
			if c, ok := v.obj.f[i]; ok {
				return c.v
			}
		}
	}
	return aUnk("no field " + field)
}

// rankOracle orders symbols by an integer rank; ⊥ and ⊤ are ranks too.
type rankOracle struct{ rank map[int]int }

func (o rankOracle) Cmp(a, b int) int {
	ra, rb := o.rank[a], o.rank[b]
	switch {
	case ra < rb:
		return -1
	case ra > rb:
		return 1
	}
	return 0
}

// weakOrders enumerates all total preorders (rank assignments with contiguous
// ranks starting at 0) of n items and calls f with the rank vector.
func weakOrders(n int, f func(rank []int)) {
	rank := make([]int, n)
	var rec func(i, maxRank int)
	rec = func(i, maxRank int) {
		if i == n {
			// canonical: every rank 0..maxRank is used
			used := make([]bool, maxRank+1)
			for _, r := range rank {
				used[r] = true
			}
			for _, u := range used {
				if !u {
					return
				}
			}
			f(rank)
			return
		}
		for r := 0; r < n; r++ {
			rank[i] = r
			m := maxRank
			if r > m {
				m = r
			}
			rec(i+1, m)
		}
	}
	rec(0, 0)
}
