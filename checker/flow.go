package main

// E1: forward path/event analysis on a function's SSA control-flow graph.
//
// Facts per program point: a must-set (labels that have happened on every path
// to here), a may-set (labels that have happened on some path) and, per named
// obligation, the set of possible event counts in {0,1,>=2}. Events come from
// instructions and from CFG edges (the ok/fail edge of a call's error test, the
// taken case of a select, either side of a normalised comparison). The analysis
// is disjunctive over "tracked booleans" — bool phis whose operands are all
// constants or tracked phis (flags such as shouldFlush/dispatched) — so that a
// flag set on one path and tested later does not blur the facts of the two
// paths. Deferred calls are applied at RunDefers in LIFO order. Calls to
// package functions and closures can be replayed from summaries.

import (
	"fmt"
	"go/constant"
	"go/token"
	"go/types"
	"sort"
	"strings"

	"golang.org/x/tools/go/ssa"
)

// count bitset over {0,1,>=2}
const (
	c0 uint8 = 1 << iota
	c1
	c2
)

func cntAdd(a, b uint8) uint8 {
	var r uint8
	for i := 0; i < 3; i++ {
		if a&(1<<i) == 0 {
			continue
		}
		for j := 0; j < 3; j++ {
			if b&(1<<j) == 0 {
				continue
			}
			s := i + j
			if s > 2 {
				s = 2
			}
			r |= 1 << s
		}
	}
	return r
}

func cntString(c uint8) string {
	var s []string
	if c&c0 != 0 {
		s = append(s, "0")
	}
	if c&c1 != 0 {
		s = append(s, "1")
	}
	if c&c2 != 0 {
		s = append(s, ">=2")
	}
	return "{" + strings.Join(s, ",") + "}"
}

type Event struct {
	Must  []string         // added to must and may
	May   []string         // added to may only
	Kill  []string         // removed from must and may
	Count map[string]uint8 // obligation -> set of possible increments
	Reset []string         // obligations whose count restarts at 0 (entering a loop iteration)
}

func ev(must ...string) *Event { return &Event{Must: must} }

func (e *Event) count(ob string) *Event {
	if e.Count == nil {
		e.Count = map[string]uint8{}
	}
	e.Count[ob] = c1
	return e
}

func (e *Event) kill(labels ...string) *Event {
	e.Kill = append(e.Kill, labels...)
	return e
}

func mergeEvents(evs ...*Event) *Event {
	var out *Event
	for _, e := range evs {
		if e == nil {
			continue
		}
		if out == nil {
			out = &Event{}
		}
		out.Must = append(out.Must, e.Must...)
		out.May = append(out.May, e.May...)
		out.Kill = append(out.Kill, e.Kill...)
		out.Reset = append(out.Reset, e.Reset...)
		for k, v := range e.Count {
			if out.Count == nil {
				out.Count = map[string]uint8{}
			}
			if old, ok := out.Count[k]; ok {
				out.Count[k] = cntAdd(old, v)
			} else {
				out.Count[k] = v
			}
		}
	}
	return out
}

type Facts struct {
	must map[string]bool
	may  map[string]bool
	cnt  map[string]uint8
	val  map[ssa.Value]int8 // tracked bools (phis of constants, results of absorbed helpers that return constants): 1 true, 2 false, 0/missing unknown
}

func newFacts() *Facts {
	return &Facts{must: map[string]bool{}, may: map[string]bool{}, cnt: map[string]uint8{}, val: map[ssa.Value]int8{}}
}

func (f *Facts) clone() *Facts {
	g := newFacts()
	for k := range f.must {
		g.must[k] = true
	}
	for k := range f.may {
		g.may[k] = true
	}
	for k, v := range f.cnt {
		g.cnt[k] = v
	}
	for k, v := range f.val {
		g.val[k] = v
	}
	return g
}

func (f *Facts) Must(l string) bool { return f.must[l] }
func (f *Facts) May(l string) bool  { return f.may[l] }
func (f *Facts) Cnt(ob string) uint8 {
	if c, ok := f.cnt[ob]; ok {
		return c
	}
	return c0
}

// MustPrefix reports whether some must-label has the prefix.
func (f *Facts) MustPrefix(p string) bool {
	for l := range f.must {
		if strings.HasPrefix(l, p) {
			return true
		}
	}
	return false
}

func (f *Facts) MayPrefix(p string) bool {
	for l := range f.may {
		if strings.HasPrefix(l, p) {
			return true
		}
	}
	return false
}

func (f *Facts) apply(e *Event) {
	if e == nil {
		return
	}
	for _, k := range e.Kill {
		if strings.HasSuffix(k, "*") {
			p := strings.TrimSuffix(k, "*")
			for l := range f.must {
				if strings.HasPrefix(l, p) {
					delete(f.must, l)
				}
			}
			for l := range f.may {
				if strings.HasPrefix(l, p) {
					delete(f.may, l)
				}
			}
			continue
		}
		delete(f.must, k)
		delete(f.may, k)
	}
	for _, l := range e.Must {
		f.must[l] = true
		f.may[l] = true
	}
	for _, l := range e.May {
		f.may[l] = true
	}
	for _, ob := range e.Reset {
		f.cnt[ob] = c0
	}
	for ob, inc := range e.Count {
		f.cnt[ob] = cntAdd(f.Cnt(ob), inc)
	}
}

// applyMayOnly applies an event that happens only on some executions (a defer
// that may or may not have been registered).
func (f *Facts) applyMayOnly(e *Event) {
	if e == nil {
		return
	}
	for _, k := range e.Kill {
		delete(f.must, k)
	}
	for _, l := range e.Must {
		f.may[l] = true
	}
	for _, l := range e.May {
		f.may[l] = true
	}
	for ob, inc := range e.Count {
		f.cnt[ob] = f.Cnt(ob) | cntAdd(f.Cnt(ob), inc)
	}
}

func (f *Facts) key() string {
	if len(f.val) == 0 {
		return ""
	}
	var ks []string
	for p, v := range f.val {
		if v != 0 {
			ks = append(ks, fmt.Sprintf("%s@%p=%d", p.Name(), p, v))
		}
	}
	sort.Strings(ks)
	return strings.Join(ks, ",")
}

func (f *Facts) joinWith(g *Facts) {
	for k := range f.must {
		if !g.must[k] {
			delete(f.must, k)
		}
	}
	for k := range g.may {
		f.may[k] = true
	}
	keys := map[string]bool{}
	for k := range f.cnt {
		keys[k] = true
	}
	for k := range g.cnt {
		keys[k] = true
	}
	for k := range keys {
		f.cnt[k] = f.Cnt(k) | g.Cnt(k)
	}
	for p, v := range f.val {
		if g.val[p] != v {
			delete(f.val, p)
		}
	}
}

func (f *Facts) equal(g *Facts) bool {
	if len(f.must) != len(g.must) || len(f.may) != len(g.may) || len(f.val) != len(g.val) {
		return false
	}
	for k := range f.must {
		if !g.must[k] {
			return false
		}
	}
	for k := range f.may {
		if !g.may[k] {
			return false
		}
	}
	keys := map[string]bool{}
	for k := range f.cnt {
		keys[k] = true
	}
	for k := range g.cnt {
		keys[k] = true
	}
	for k := range keys {
		if f.Cnt(k) != g.Cnt(k) {
			return false
		}
	}
	for p, v := range f.val {
		if g.val[p] != v {
			return false
		}
	}
	return true
}

// State is a set of disjuncts keyed by tracked-bool valuation.
type State map[string]*Facts

func (s State) add(f *Facts) {
	k := f.key()
	if old, ok := s[k]; ok {
		old.joinWith(f)
		return
	}
	s[k] = f
}

func (s State) clone() State {
	t := State{}
	for k, f := range s {
		t[k] = f.clone()
	}
	return t
}

func (s State) equal(t State) bool {
	if len(s) != len(t) {
		return false
	}
	for k, f := range s {
		g, ok := t[k]
		if !ok || !f.equal(g) {
			return false
		}
	}
	return true
}

func (s State) collapse() State {
	var acc *Facts
	for _, f := range s {
		if acc == nil {
			acc = f.clone()
		} else {
			acc.joinWith(f)
		}
	}
	if acc == nil {
		return State{}
	}
	acc.val = map[ssa.Value]int8{}
	return State{"": acc}
}

// merged returns the join over all disjuncts (nil when unreachable).
func (s State) merged() *Facts {
	var acc *Facts
	for _, f := range s {
		if acc == nil {
			acc = f.clone()
		} else {
			acc.joinWith(f)
		}
	}
	return acc
}

// Cond is a normalised branch condition.
type Cond struct {
	Op   string    // "==", "!=", "<", "<=", ">", ">=", "truth"
	X, Y ssa.Value // Y nil for "truth"
	Neg  bool      // condition is negated (already folded into Op where possible)
	Raw  ssa.Value
}

type Classifier struct {
	// Call classifies a synchronous call (a Call instruction, or a deferred
	// call at the time it runs).
	Call func(site ssa.Instruction, c *ssa.CallCommon) *Event
	// Instr classifies any other instruction (Store, Send, Go, MakeChan, ...).
	Instr func(in ssa.Instruction) *Event
	// CallEdge: outcome is "ok"/"fail" for a tested error result, "true"/"false"
	// for a tested bool result (incl. comma-ok).
	CallEdge func(call ssa.Value, outcome string) *Event
	// SelCase: case k of a select was taken (k == -1: default).
	SelCase func(sel *ssa.Select, k int) *Event
	// Cond: a generic comparison's branch was taken.
	Cond func(c Cond, branch bool) *Event
}

type Flow struct {
	w   *World
	fn  *ssa.Function
	cl  *Classifier
	in  map[*ssa.BasicBlock]State
	out map[*ssa.BasicBlock]State
	// per-instruction states before the instruction (filled by the final pass)
	before  map[ssa.Instruction]State
	tracked map[*ssa.Phi]bool
	defers  []*ssa.Defer
	// EdgeNotes records, for diagnostics, which labels each edge generated.
	depth int
	sums  map[*ssa.Function]*Event
	stack map[*ssa.Function]bool
	// absorbed helper calls (absorb.go): the helper's return states split by
	// what it returned, for the edges that test the call's result
	entry    State
	exits    map[*ssa.Call]*helperExit
	recorded bool
}

type helperExit struct {
	all, ok, fail State
}

func newFlow(w *World, fn *ssa.Function, cl *Classifier) *Flow {
	f := &Flow{w: w, fn: fn, cl: cl, sums: map[*ssa.Function]*Event{}, stack: map[*ssa.Function]bool{}}
	f.run()
	return f
}

func (f *Flow) sub(fn *ssa.Function) *Flow {
	g := &Flow{w: f.w, fn: fn, cl: f.cl, sums: f.sums, stack: f.stack, depth: f.depth + 1}
	g.run()
	return g
}

// Summary returns the event a synchronous call to fn amounts to under this
// flow's classifier: labels guaranteed at every normal return (Must), labels
// possible at some return (May) and per-obligation count sets. Recursive and
// too-deep calls summarise to nil (no events).
func (f *Flow) Summary(fn *ssa.Function) *Event {
	if fn == nil || len(fn.Blocks) == 0 {
		return nil
	}
	if e, ok := f.sums[fn]; ok {
		return e
	}
	if f.stack[fn] || f.depth > 6 {
		return nil
	}
	f.stack[fn] = true
	g := f.sub(fn)
	delete(f.stack, fn)
	var acc *Facts
	for _, b := range fn.Blocks {
		if len(b.Instrs) == 0 {
			continue
		}
		if r, ok := b.Instrs[len(b.Instrs)-1].(*ssa.Return); ok {
			st := g.before[r]
			if m := st.merged(); m != nil {
				if acc == nil {
					acc = m
				} else {
					acc.joinWith(m)
				}
			}
		}
	}
	var e *Event
	if acc != nil {
		e = &Event{Count: map[string]uint8{}}
		for l := range acc.must {
			e.Must = append(e.Must, l)
		}
		for l := range acc.may {
			if !acc.must[l] {
				e.May = append(e.May, l)
			}
		}
		sort.Strings(e.Must)
		sort.Strings(e.May)
		for ob, c := range acc.cnt {
			e.Count[ob] = c
		}
	}
	f.sums[fn] = e
	return e
}

func (f *Flow) computeTracked() {
	f.tracked = map[*ssa.Phi]bool{}
	var phis []*ssa.Phi
	for _, b := range f.fn.Blocks {
		for _, in := range b.Instrs {
			if p, ok := in.(*ssa.Phi); ok {
				if bt, ok := p.Type().Underlying().(*types.Basic); ok && bt.Kind() == types.Bool {
					phis = append(phis, p)
					f.tracked[p] = true
				}
			}
		}
	}
	for changed := true; changed; {
		changed = false
		for _, p := range phis {
			if !f.tracked[p] {
				continue
			}
			for _, e := range p.Edges {
				switch x := e.(type) {
				case *ssa.Const:
				case *ssa.Phi:
					if !f.tracked[x] {
						f.tracked[p] = false
						changed = true
					}
				case *ssa.Call:
					if !f.constBoolHelper(x) {
						f.tracked[p] = false
						changed = true
					}
				default:
					f.tracked[p] = false
					changed = true
				}
			}
		}
	}
	for p, ok := range f.tracked {
		if !ok {
			delete(f.tracked, p)
		}
	}
}

func constBool(v ssa.Value) (bool, bool) {
	if c, ok := v.(*ssa.Const); ok && c.Value != nil && c.Value.Kind() == constant.Bool {
		return constant.BoolVal(c.Value), true
	}
	return false, false
}

// boolVal evaluates a condition over tracked bools: 1 true, 2 false, 0 unknown.
func (f *Flow) boolVal(v ssa.Value, facts *Facts) int8 {
	switch x := v.(type) {
	case *ssa.Const:
		if b, ok := constBool(x); ok {
			if b {
				return 1
			}
			return 2
		}
	case *ssa.Phi:
		if f.tracked[x] {
			return facts.val[x]
		}
	case *ssa.Call:
		if f.constBoolHelper(x) {
			return facts.val[x]
		}
	case *ssa.UnOp:
		if x.Op == token.NOT {
			switch f.boolVal(x.X, facts) {
			case 1:
				return 2
			case 2:
				return 1
			}
		}
	}
	return 0
}

func (f *Flow) run() {
	fn := f.fn
	f.in = map[*ssa.BasicBlock]State{}
	f.out = map[*ssa.BasicBlock]State{}
	f.before = map[ssa.Instruction]State{}
	f.computeTracked()
	for _, b := range fn.Blocks {
		for _, in := range b.Instrs {
			if d, ok := in.(*ssa.Defer); ok {
				f.defers = append(f.defers, d)
			}
		}
	}
	if len(fn.Blocks) == 0 {
		return
	}
	entry := fn.Blocks[0]
	work := []*ssa.BasicBlock{entry}
	inWork := map[*ssa.BasicBlock]bool{entry: true}
	iter := 0
	for len(work) > 0 {
		iter++
		if iter > 20000 {
			break
		}
		b := work[0]
		work = work[1:]
		inWork[b] = false
		var in State
		if b == entry {
			if f.entry != nil {
				in = f.entry.clone()
			} else {
				in = State{"": newFacts()}
			}
		} else {
			in = State{}
			for _, p := range b.Preds {
				po, ok := f.out[p]
				if !ok {
					continue
				}
				for si, s := range p.Succs {
					if s != b {
						continue
					}
					for _, d := range f.edge(p, si, po, b) {
						in.add(d)
					}
				}
			}
			if len(in) > 48 {
				in = in.collapse()
			}
		}
		if len(in) == 0 {
			continue
		}
		f.in[b] = in
		out := f.transfer(b, in, false)
		if old, ok := f.out[b]; ok && old.equal(out) {
			continue
		}
		f.out[b] = out
		for _, s := range b.Succs {
			if !inWork[s] {
				inWork[s] = true
				work = append(work, s)
			}
		}
	}
	// final pass: record per-instruction states
	for _, b := range fn.Blocks {
		if in, ok := f.in[b]; ok {
			f.transfer(b, in, true)
		}
	}
}

// edge computes the disjuncts flowing along p -> succ #si into block b.
func (f *Flow) edge(p *ssa.BasicBlock, si int, po State, b *ssa.BasicBlock) []*Facts {
	var res []*Facts
	var ifi *ssa.If
	if len(p.Instrs) > 0 {
		ifi, _ = p.Instrs[len(p.Instrs)-1].(*ssa.If)
	}
	branch := si == 0
	predIdx := -1
	// which predecessor slot of b is this edge (for phi operands); with
	// duplicate edges p->b (both branches to the same block) use the slot order.
	seen := 0
	for i, q := range b.Preds {
		if q == p {
			if seen == dupIndex(p, si) {
				predIdx = i
				break
			}
			seen++
		}
	}
	var edgeEv *Event
	if ifi != nil {
		edgeEv = f.edgeEvent(ifi, branch)
		if sub := f.absorbedEdgeState(p, ifi, branch); sub != nil {
			po = sub
		}
	}
	for _, d := range po {
		if ifi != nil {
			bv := f.boolVal(ifi.Cond, d)
			if (bv == 1 && !branch) || (bv == 2 && branch) {
				continue // infeasible under this valuation
			}
		}
		g := d.clone()
		g.apply(edgeEv)
		// refine tracked phi tested directly by the branch
		if ifi != nil {
			f.refine(ifi.Cond, branch, g)
		}
		// phi assignment (simultaneous)
		if predIdx >= 0 {
			newVals := map[ssa.Value]int8{}
			for _, in := range b.Instrs {
				ph, ok := in.(*ssa.Phi)
				if !ok {
					break
				}
				if !f.tracked[ph] {
					continue
				}
				newVals[ph] = f.boolVal(ph.Edges[predIdx], d)
			}
			for ph, v := range newVals {
				if v == 0 {
					delete(g.val, ph)
				} else {
					g.val[ph] = v
				}
			}
		}
		res = append(res, g)
	}
	return res
}

func dupIndex(p *ssa.BasicBlock, si int) int {
	n := 0
	for i := 0; i < si; i++ {
		if p.Succs[i] == p.Succs[si] {
			n++
		}
	}
	return n
}

func (f *Flow) refine(cond ssa.Value, branch bool, g *Facts) {
	switch x := cond.(type) {
	case *ssa.Phi:
		if f.tracked[x] {
			if branch {
				g.val[x] = 1
			} else {
				g.val[x] = 2
			}
		}
	case *ssa.UnOp:
		if x.Op == token.NOT {
			f.refine(x.X, !branch, g)
		}
	}
}

// edgeEvent decodes an If condition into the classifier's edge callbacks.
func (f *Flow) edgeEvent(ifi *ssa.If, branch bool) *Event {
	cond := ifi.Cond
	neg := false
	for {
		if u, ok := cond.(*ssa.UnOp); ok && u.Op == token.NOT {
			cond = u.X
			neg = !neg
			continue
		}
		break
	}
	taken := branch != neg // truth value of the un-negated condition on this edge
	switch x := cond.(type) {
	case *ssa.BinOp:
		// select case dispatch
		if ext, ok := x.X.(*ssa.Extract); ok && ext.Index == 0 {
			if sel, ok := ext.Tuple.(*ssa.Select); ok && x.Op == token.EQL {
				if k, ok := constInt(x.Y); ok {
					if taken {
						if f.cl.SelCase != nil {
							return f.cl.SelCase(sel, k)
						}
						return nil
					}
					if !sel.Blocking && k == len(sel.States)-1 {
						if f.cl.SelCase != nil {
							return f.cl.SelCase(sel, -1)
						}
					}
					return nil
				}
			}
		}
		// error result tested against nil
		if x.Op == token.NEQ || x.Op == token.EQL {
			var other ssa.Value
			if isNilConst(x.Y) {
				other = x.X
			} else if isNilConst(x.X) {
				other = x.Y
			}
			if other != nil && isErrorType(other.Type()) {
				if call := callOrigin(other); call != nil {
					isFail := taken == (x.Op == token.NEQ)
					var e1 *Event
					if f.cl.CallEdge != nil {
						if isFail {
							e1 = f.cl.CallEdge(call, "fail")
						} else {
							e1 = f.cl.CallEdge(call, "ok")
						}
					}
					var e2 *Event
					if f.cl.Cond != nil {
						e2 = f.cl.Cond(normCond(x), taken)
					}
					return mergeEvents(e1, e2)
				}
			}
		}
		if f.cl.Cond != nil {
			return f.cl.Cond(normCond(x), taken)
		}
		return nil
	default:
		// bool value: call result, comma-ok, or other
		if call := callOrigin(cond); call != nil {
			var e1, e2 *Event
			if f.cl.CallEdge != nil {
				if taken {
					e1 = f.cl.CallEdge(call, "true")
				} else {
					e1 = f.cl.CallEdge(call, "false")
				}
			}
			if f.cl.Cond != nil {
				e2 = f.cl.Cond(Cond{Op: "truth", X: cond, Raw: cond}, taken)
			}
			return mergeEvents(e1, e2)
		}
		if f.cl.Cond != nil {
			return f.cl.Cond(Cond{Op: "truth", X: cond, Raw: cond}, taken)
		}
	}
	return nil
}

func normCond(x *ssa.BinOp) Cond {
	return Cond{Op: x.Op.String(), X: x.X, Y: x.Y, Raw: x}
}

func constInt(v ssa.Value) (int, bool) {
	if c, ok := v.(*ssa.Const); ok && c.Value != nil && c.Value.Kind() == constant.Int {
		n, ok := constant.Int64Val(c.Value)
		return int(n), ok
	}
	return 0, false
}

func isNilConst(v ssa.Value) bool {
	c, ok := v.(*ssa.Const)
	return ok && c.IsNil()
}

func isErrorType(t types.Type) bool {
	return types.Identical(t, types.Universe.Lookup("error").Type())
}

// callOrigin returns the call (or other tuple-producing instruction: Lookup,
// TypeAssert, receive) a value comes from, looking through Extract.
func callOrigin(v ssa.Value) ssa.Value {
	switch x := v.(type) {
	case *ssa.Call:
		return x
	case *ssa.Extract:
		switch t := x.Tuple.(type) {
		case *ssa.Call:
			return t
		case *ssa.Lookup, *ssa.TypeAssert, *ssa.UnOp, *ssa.Next:
			return t.(ssa.Value)
		}
	}
	return nil
}

func (f *Flow) transfer(b *ssa.BasicBlock, in State, record bool) State {
	cur := in.clone()
	for _, instr := range b.Instrs {
		if record {
			f.before[instr] = cur.clone()
		}
		switch x := instr.(type) {
		case *ssa.Call:
			var e *Event
			if f.cl.Call != nil {
				e = f.cl.Call(x, &x.Call)
			}
			for _, d := range cur {
				d.apply(e)
			}
			if e == nil {
				if nxt := f.absorb(x, cur, record); nxt != nil {
					cur = nxt
				}
			}
		case *ssa.Defer:
			for _, d := range cur {
				d.apply(ev(f.deferLabel(x)))
			}
		case *ssa.RunDefers:
			for i := len(f.defers) - 1; i >= 0; i-- {
				df := f.defers[i]
				var e *Event
				if f.cl.Call != nil {
					e = f.cl.Call(df, &df.Call)
				}
				if e == nil {
					continue
				}
				lbl := f.deferLabel(df)
				for _, d := range cur {
					if d.must[lbl] {
						d.apply(e)
					} else if d.may[lbl] {
						d.applyMayOnly(e)
					}
				}
			}
		default:
			if f.cl.Instr != nil {
				if e := f.cl.Instr(instr); e != nil {
					for _, d := range cur {
						d.apply(e)
					}
				}
			}
		}
	}
	return cur
}

func (f *Flow) deferLabel(d *ssa.Defer) string {
	for i, x := range f.defers {
		if x == d {
			return fmt.Sprintf("deferred#%d", i)
		}
	}
	return "deferred#?"
}

// Before returns the merged facts before an instruction (nil if unreachable).
func (f *Flow) Before(in ssa.Instruction) *Facts {
	return f.before[in].merged()
}

// Disjuncts returns the per-valuation facts before an instruction.
func (f *Flow) Disjuncts(in ssa.Instruction) []*Facts {
	var out []*Facts
	st := f.before[in]
	var keys []string
	for k := range st {
		keys = append(keys, k)
	}
	sort.Strings(keys)
	for _, k := range keys {
		out = append(out, st[k])
	}
	return out
}

// Returns lists the function's Return instructions that are reachable.
func (f *Flow) Returns() []*ssa.Return {
	var out []*ssa.Return
	for _, b := range f.fn.Blocks {
		if len(b.Instrs) == 0 {
			continue
		}
		if r, ok := b.Instrs[len(b.Instrs)-1].(*ssa.Return); ok {
			if _, reached := f.before[r]; reached && len(f.before[r]) > 0 {
				out = append(out, r)
			}
		}
	}
	return out
}

// EdgeFacts returns the facts flowing along the edge from block p to its
// successor #si (after edge events), merged.
func (f *Flow) EdgeFacts(p *ssa.BasicBlock, si int) *Facts {
	po, ok := f.out[p]
	if !ok {
		return nil
	}
	ds := f.edge(p, si, po, p.Succs[si])
	var acc *Facts
	for _, d := range ds {
		if acc == nil {
			acc = d.clone()
		} else {
			acc.joinWith(d)
		}
	}
	return acc
}

// ---------------------------------------------------------------------------
// small SSA helpers shared by the rules

func eachInstr(fn *ssa.Function, f func(in ssa.Instruction)) {
	for _, b := range fn.Blocks {
		for _, in := range b.Instrs {
			f(in)
		}
	}
	if theWorld != nil && fn.Blocks != nil {
		for _, h := range theWorld.absorbedIn(fn) {
			for _, b := range h.Blocks {
				for _, in := range b.Instrs {
					f(in)
				}
			}
		}
	}
}

// reachableFrom returns the blocks reachable from b (inclusive).
func reachableFrom(b *ssa.BasicBlock) map[*ssa.BasicBlock]bool {
	seen := map[*ssa.BasicBlock]bool{}
	var rec func(x *ssa.BasicBlock)
	rec = func(x *ssa.BasicBlock) {
		if seen[x] {
			return
		}
		seen[x] = true
		for _, s := range x.Succs {
			rec(s)
		}
	}
	rec(b)
	return seen
}

func isPanicBlock(b *ssa.BasicBlock) bool {
	if len(b.Instrs) == 0 {
		return false
	}
	_, ok := b.Instrs[len(b.Instrs)-1].(*ssa.Panic)
	return ok
}

// combine merges classifiers: every callback's events are merged.
func combine(cls ...*Classifier) *Classifier {
	out := &Classifier{}
	out.Call = func(site ssa.Instruction, c *ssa.CallCommon) *Event {
		var evs []*Event
		for _, cl := range cls {
			if cl != nil && cl.Call != nil {
				evs = append(evs, cl.Call(site, c))
			}
		}
		return mergeEvents(evs...)
	}
	out.Instr = func(in ssa.Instruction) *Event {
		var evs []*Event
		for _, cl := range cls {
			if cl != nil && cl.Instr != nil {
				evs = append(evs, cl.Instr(in))
			}
		}
		return mergeEvents(evs...)
	}
	out.CallEdge = func(call ssa.Value, outcome string) *Event {
		var evs []*Event
		for _, cl := range cls {
			if cl != nil && cl.CallEdge != nil {
				evs = append(evs, cl.CallEdge(call, outcome))
			}
		}
		return mergeEvents(evs...)
	}
	out.SelCase = func(sel *ssa.Select, k int) *Event {
		var evs []*Event
		for _, cl := range cls {
			if cl != nil && cl.SelCase != nil {
				evs = append(evs, cl.SelCase(sel, k))
			}
		}
		return mergeEvents(evs...)
	}
	out.Cond = func(c Cond, b bool) *Event {
		var evs []*Event
		for _, cl := range cls {
			if cl != nil && cl.Cond != nil {
				evs = append(evs, cl.Cond(c, b))
			}
		}
		return mergeEvents(evs...)
	}
	return out
}

// namedCalls labels calls by resolved callee: names maps a callee name (or base
// name) to a label L; the call generates "call:L" and its tested result edges
// generate "ok:L"/"fail:L" (error results) or "true:L"/"false:L" (bool results).
func namedCalls(w *World, names map[string]string) *Classifier {
	label := func(c *ssa.CallCommon) string {
		n := w.calleeName(c)
		if l, ok := names[n]; ok {
			return l
		}
		if l, ok := names[baseName(n)]; ok {
			return l
		}
		return ""
	}
	return &Classifier{
		Call: func(site ssa.Instruction, c *ssa.CallCommon) *Event {
			if l := label(c); l != "" {
				return ev("call:" + l)
			}
			return nil
		},
		CallEdge: func(call ssa.Value, outcome string) *Event {
			if c, ok := call.(*ssa.Call); ok {
				if l := label(&c.Call); l != "" {
					return ev(outcome + ":" + l)
				}
			}
			return nil
		},
	}
}

// withSummaries wraps a classifier so that calls to closures of host (and, when
// all is set, to any package function) replay the callee's summary.
func flowWithSummaries(w *World, fn *ssa.Function, base *Classifier, all bool) *Flow {
	fl := &Flow{w: w, fn: fn, sums: map[*ssa.Function]*Event{}, stack: map[*ssa.Function]bool{fn: true}}
	cl := *base
	inner := base.Call
	cl.Call = func(site ssa.Instruction, c *ssa.CallCommon) *Event {
		var e *Event
		if inner != nil {
			e = inner(site, c)
		}
		if callee := w.staticCallee(c); callee != nil && w.ours(callee) && len(callee.Blocks) > 0 {
			if all || (callee.Parent() != nil && outermost(callee) == outermost(fn)) {
				return mergeEvents(e, fl.Summary(callee))
			}
		}
		return e
	}
	fl.cl = &cl
	fl.run()
	return fl
}

// absorb analyses a plain call of an extracted helper in line (absorb.go): the
// helper's body runs from the caller's state, and the caller continues with the
// join of its return states. Returns nil when the call is not absorbed.
func (f *Flow) absorb(call *ssa.Call, cur State, record bool) State {
	if call.Call.IsInvoke() || f.depth > 5 {
		return nil
	}
	h := call.Call.StaticCallee()
	if h == nil || !f.w.absorbable(h) || f.stack[h] || h == f.fn {
		return nil
	}
	f.stack[h] = true
	g := &Flow{w: f.w, fn: h, cl: f.cl, sums: f.sums, stack: f.stack, depth: f.depth + 1, entry: cur}
	// the helper's parameters stand for this call's arguments while it is analysed
	if f.w.paramCtx == nil {
		f.w.paramCtx = map[*ssa.Parameter]ssa.Value{}
	}
	saved := map[*ssa.Parameter]ssa.Value{}
	for i, p := range h.Params {
		if old, had := f.w.paramCtx[p]; had {
			saved[p] = old
		}
		if i < len(call.Call.Args) {
			f.w.paramCtx[p] = call.Call.Args[i]
		}
	}
	g.run()
	for _, p := range h.Params {
		if old, had := saved[p]; had {
			f.w.paramCtx[p] = old
		} else {
			delete(f.w.paramCtx, p)
		}
	}
	delete(f.stack, h)
	ex := &helperExit{all: State{}, ok: State{}, fail: State{}}
	var valued []*Facts
	nres := h.Signature.Results().Len()
	for _, b := range h.Blocks {
		if len(b.Instrs) == 0 {
			continue
		}
		r, ok := b.Instrs[len(b.Instrs)-1].(*ssa.Return)
		if !ok {
			continue
		}
		st, have := g.before[r]
		if !have {
			continue
		}
		for _, d := range st {
			ex.all.add(d.clone())
		}
		if nres == 0 {
			continue
		}
		last := retOperand(r, nres-1)
		kind := 0 // 1 ok/true, 2 fail/false, 0 either
		if isErrorType(h.Signature.Results().At(nres - 1).Type()) {
			if isNilConst(last) {
				kind = 1
			} else if c, isCall := last.(*ssa.Call); isCall {
				switch f.w.calleeName(&c.Call) {
				case "fmt.Errorf", "errors.New":
					kind = 2
				}
			}
			if kind == 0 && f.w.allNonNilAt([]ssa.Value{last}, r) {
				kind = 2 // returned on the non-nil edge of its own test
			}
			if kind == 0 {
				// a sentinel error variable, or the context's error handed back
				// from its Done branch: failures by construction (the rules treat
				// the same operands as "not an acceptance" when they are returned
				// by the anchor itself)
				if u, isLoad := last.(*ssa.UnOp); isLoad {
					if _, isGlobal := u.X.(*ssa.Global); isGlobal {
						kind = 2
					}
				}
				if c, isCall := last.(*ssa.Call); isCall && f.w.calleeName(&c.Call) == "context.Context.Err" {
					kind = 2
				}
			}
		} else if b, isC := constBool(last); isC {
			if b {
				kind = 1
			} else {
				kind = 2
			}
		}
		isBoolRes := false
		if bt, okb := h.Signature.Results().At(nres - 1).Type().Underlying().(*types.Basic); okb && bt.Kind() == types.Bool && nres == 1 {
			isBoolRes = true
		}
		if isBoolRes && kind == 0 {
			// `return <condition>`: the verdict is that condition — split the
			// return state on it, with the classifier's edge events applied, so
			// the caller's test of the call behaves like a test of the condition
			evT, evF := g.condEvents(last, true), g.condEvents(last, false)
			for _, d := range st {
				t := d.clone()
				t.apply(evT)
				t.val[call] = 1
				ex.ok.add(t.clone())
				valued = append(valued, t)
				fcl := d.clone()
				fcl.apply(evF)
				fcl.val[call] = 2
				ex.fail.add(fcl.clone())
				valued = append(valued, fcl)
			}
			continue
		}
		for _, d := range st {
			if kind != 2 {
				ex.ok.add(d.clone())
			}
			if kind != 1 {
				ex.fail.add(d.clone())
			}
		}
		if !isErrorType(h.Signature.Results().At(nres-1).Type()) && nres == 1 && kind != 0 {
			// a boolean verdict: remember it per disjunct, as for a flag
			for _, d := range st {
				c := d.clone()
				c.val[call] = int8(kind)
				valued = append(valued, c)
			}
		} else {
			for _, d := range st {
				valued = append(valued, d.clone())
			}
		}
	}
	if f.exits == nil {
		f.exits = map[*ssa.Call]*helperExit{}
	}
	f.exits[call] = ex
	if record {
		// recorded per call site: the disjuncts of one call are not merged with
		// those of another call of the same helper (rules that need "on every
		// way of reaching this instruction" read them one by one)
		for in, st := range g.before {
			old, had := f.before[in]
			if !had {
				old = State{}
				f.before[in] = old
			}
			for _, d := range st {
				c := d.clone()
				c.val[call] = 3
				old.add(c)
			}
		}
		for c, e := range g.exits {
			f.exits[c] = e
		}
	}
	if len(ex.all) == 0 {
		return nil
	}
	if f.constBoolHelper(call) {
		out := State{}
		for _, d := range valued {
			out.add(d)
		}
		return out
	}
	out := ex.all.clone()
	if len(out) > 48 {
		out = out.collapse()
	}
	return out
}

// absorbedEdgeState: when block p ends by testing the result of an absorbed
// helper call made in p (with nothing classified in between), the state on the
// edge is the subset of the helper's return states that returned accordingly.
func (f *Flow) absorbedEdgeState(p *ssa.BasicBlock, ifi *ssa.If, branch bool) State {
	if len(f.exits) == 0 {
		return nil
	}
	cond := ifi.Cond
	neg := false
	for {
		if u, ok := cond.(*ssa.UnOp); ok && u.Op == token.NOT {
			cond, neg = u.X, !neg
			continue
		}
		break
	}
	taken := branch != neg
	var tested ssa.Value
	wantOK := false
	if x, ok := cond.(*ssa.BinOp); ok && (x.Op == token.NEQ || x.Op == token.EQL) {
		var other ssa.Value
		if isNilConst(x.Y) {
			other = x.X
		} else if isNilConst(x.X) {
			other = x.Y
		}
		if other == nil || !isErrorType(other.Type()) {
			return nil
		}
		tested = other
		isFail := taken == (x.Op == token.NEQ)
		wantOK = !isFail
	} else {
		tested = cond
		wantOK = taken
	}
	co := callOrigin(tested)
	call, ok := co.(*ssa.Call)
	if !ok || call.Block() != p {
		return nil
	}
	ex := f.exits[call]
	if ex == nil {
		return nil
	}
	// nothing that the classifier could react to between the call and the test
	after := false
	for _, in := range p.Instrs {
		if in == ssa.Instruction(call) {
			after = true
			continue
		}
		if !after {
			continue
		}
		switch in.(type) {
		case *ssa.Call, *ssa.Store, *ssa.Defer, *ssa.Go, *ssa.Send, *ssa.MapUpdate, *ssa.RunDefers:
			return nil
		}
	}
	st := ex.fail
	if wantOK {
		st = ex.ok
	}
	if len(st) == 0 {
		return State{}
	}
	return st.clone()
}

// constBoolHelper: a plain call of an absorbed helper with a single boolean
// result — its verdict is tracked per disjunct like a flag (absorb() values
// each return state with what that return yields).
func (f *Flow) constBoolHelper(c *ssa.Call) bool {
	if c.Call.IsInvoke() {
		return false
	}
	h := c.Call.StaticCallee()
	if h == nil || !f.w.absorbable(h) {
		return false
	}
	res := h.Signature.Results()
	if res.Len() != 1 {
		return false
	}
	if bt, ok := res.At(0).Type().Underlying().(*types.Basic); !ok || bt.Kind() != types.Bool {
		return false
	}
	return true
}

// condEvents: the classifier's events for a boolean value being true/false (as
// edgeEvent derives them for an If on that value).
func (f *Flow) condEvents(cond ssa.Value, taken bool) *Event {
	neg := false
	for {
		if u, ok := cond.(*ssa.UnOp); ok && u.Op == token.NOT {
			cond, neg = u.X, !neg
			continue
		}
		break
	}
	if neg {
		taken = !taken
	}
	switch x := cond.(type) {
	case *ssa.BinOp:
		if f.cl.Cond != nil {
			return f.cl.Cond(normCond(x), taken)
		}
	default:
		var e1, e2 *Event
		if call := callOrigin(cond); call != nil && f.cl.CallEdge != nil {
			if taken {
				e1 = f.cl.CallEdge(call, "true")
			} else {
				e1 = f.cl.CallEdge(call, "false")
			}
		}
		if f.cl.Cond != nil {
			e2 = f.cl.Cond(Cond{Op: "truth", X: cond, Raw: cond}, taken)
		}
		return mergeEvents(e1, e2)
	}
	return nil
}
