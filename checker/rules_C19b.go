package main

import (
	"fmt"
	"go/token"
	"go/types"
	"os"
	"strings"

	"golang.org/x/tools/go/ssa"
)

// exactBoundFuncs: the length-prefixed decoders whose every slice bound, index
// and fixed-width decode is proven in bounds by the linear prover (E8). The
// list is frozen from a run over the whole read path: functions whose sinks
// the (incomplete) prover cannot all discharge stay under the direction-only
// rule C19.R1.
var exactBoundFuncs = []string{
	"BlockRowScanner.Next",
	"ReadFileMetadata",
	"parseFilterSection",
	"parseFilterSection$1",
	"planBlockFilterReads",
	"blockFilterCursor.heldSection",
}

// linearAssumed: leaves taken as non-negative on entry to a decoder, with the
// obligation that justifies it.
var linearAssumed = map[string][]string{
	// heldSection is entered only from filtersFor after validateFilterSection-ok
	// for this very block (C19.R1 callers(...) obligation, C19.R5), and
	// validateFilterSection rejects a negative size (C19.R4)
	"blockFilterCursor.heldSection": {"p:block.BloomFilterSize@entry"},
}

type boundSink struct {
	in    ssa.Instruction
	what  string
	needs []lin
	names []string
	// bounded: the obligation is "∃ a single leaf L with L − need ≥ 0" (an
	// allocation no larger than one value the caller already holds, e.g. the
	// file size) rather than need ≥ 0
	bounded bool
}

func linearSinks(e *linEnv, fn *ssa.Function) []boundSink {
	var out []boundSink
	eachInstr(fn, func(in ssa.Instruction) {
		switch x := in.(type) {
		case *ssa.Slice:
			if x.Low == nil && x.High == nil {
				return
			}
			base := e.baseLen(x.X)
			s := boundSink{in: in, what: "slice"}
			hi := base
			if x.High != nil {
				hi = e.eval(x.High)
				s.needs = append(s.needs, base.sub(hi))
				s.names = append(s.names, "high<=len")
			}
			lo := linConst(0)
			if x.Low != nil {
				lo = e.eval(x.Low)
			}
			s.needs = append(s.needs, hi.sub(lo))
			s.names = append(s.names, "low<=high")
			out = append(out, s)
		case *ssa.MakeSlice:
			if _, isC := x.Len.(*ssa.Const); isC {
				return
			}
			n := e.eval(x.Len)
			if n.isConst() {
				return
			}
			out = append(out, boundSink{in: in, what: "make", needs: []lin{n}, names: []string{"size<=one-value"}, bounded: true})
		case *ssa.IndexAddr:
			if _, isSlice := x.X.Type().Underlying().(*types.Slice); !isSlice {
				return
			}
			out = append(out, boundSink{in: in, what: "index", needs: []lin{e.lenOf(x.X).sub(e.eval(x.Index)).plus(-1)}, names: []string{"index<len"}})
		case *ssa.Call:
			n := e.w.calleeName(&x.Call)
			width := int64(0)
			switch {
			case strings.HasSuffix(n, "littleEndian).Uint32"), strings.HasSuffix(n, "littleEndian).PutUint32"):
				width = 4
			case strings.HasSuffix(n, "littleEndian).Uint64"), strings.HasSuffix(n, "littleEndian).PutUint64"):
				width = 8
			case strings.HasSuffix(n, "littleEndian).Uint16"):
				width = 2
			}
			if width > 0 && len(x.Call.Args) >= 2 {
				out = append(out, boundSink{in: in, what: "fixed-width", needs: []lin{e.lenOf(x.Call.Args[1]).plus(-width)}, names: []string{fmt.Sprintf("len>=%d", width)}})
			}
		}
	})
	return out
}

// c19R9: exact in-bounds proofs in the length-prefixed decoders.
func c19R9(w *World, r *Report) {
	const rule = "C19.R9"
	r.rule(rule, "exact bounds in the length-prefixed decoders: for every slice expression, slice index and fixed-width decode, high ≤ len, low ≤ high, index < len and len ≥ width follow as linear consequences of the dominating comparisons, with loads resolved through the function's own stores (so a length checked before the cursor advances does not count for a slice taken after it)", 31)
	debug := os.Getenv("BSCHECK_LINEAR_DEBUG") != ""
	funcs := exactBoundFuncs
	if debug {
		funcs = nil
		for _, n := range readPathFuncs {
			funcs = append(funcs, n)
			if f := w.fn(n); f != nil {
				for _, a := range f.AnonFuncs {
					funcs = append(funcs, baseName(w.name(a)))
				}
			}
		}
	}
	for _, name := range funcs {
		fn := w.fn(name)
		if fn == nil {
			r.undecided(rule, "anchor:"+name, "-", "decoder "+name+" not found")
			continue
		}
		e := newLinEnv(w, fn)
		for _, l := range linearAssumed[name] {
			e.nonneg[l] = true
		}
		count := map[string]int{}
		for _, s := range linearSinks(e, fn) {
			guards := e.guardsAt(s.in.Block())
			for i, need := range s.needs {
				ck := fmt.Sprintf("%s:%s:%s", name, s.what, s.names[i])
				count[ck]++
				key := fmt.Sprintf("%s#%d", ck, count[ck])
				okc := e.entails(need, guards)
				if s.bounded {
					okc = false
					leaves := map[string]bool{}
					for _, g := range append([]lin{need}, guards...) {
						for l := range g.c {
							leaves[l] = true
						}
					}
					for l := range leaves {
						if _, self := need.c[l]; !self && e.entails(linLeaf(l).sub(need), guards) {
							okc = true
						}
					}
				}
				if debug {
					var gs []string
					for _, g := range guards {
						gs = append(gs, "{"+g.String()+"}")
					}
					fmt.Fprintf(os.Stderr, "LIN %v %s at %s need {%s} guards %s\n", okc, key, w.instrPos(s.in), need.String(), strings.Join(gs, " "))
					if !okc {
						continue
					}
				}
				r.check(okc, rule, key, w.instrPos(s.in), "entailed by the dominating comparisons", fmt.Sprintf("%s is not a consequence of the checks that precede it (needs %s ≥ 0): a corrupted length can make this %s run past the data it was checked against — a panic, or bytes from outside the section returned as data", s.names[i], need.String(), s.what))
			}
		}
	}
}

// c19R8: overflow-safe arithmetic in the metadata validators.
func c19R8(w *World, r *Report) {
	const rule = "C19.R8"
	r.rule(rule, "overflow-safe validation: in validate/validateFilterSection every sum of two non-constant quantities is bounded by a single int64 value through the dominating comparisons, and every difference x−y has y ≤ x and y bounded below — so no comparison is made on a wrapped value", 4)
	for _, name := range []string{"FileMetadata.validate", "DataBlockMetadata.validateFilterSection"} {
		fn := fnOrUndecided(w, r, rule, name)
		if fn == nil {
			continue
		}
		e := newLinEnv(w, fn)
		count := map[string]int{}
		eachInstr(fn, func(in ssa.Instruction) {
			b, ok := in.(*ssa.BinOp)
			if !ok || intBits(b.Type()) == 0 {
				return
			}
			if b.Op != token.ADD && b.Op != token.SUB && b.Op != token.MUL {
				return
			}
			x, y := e.eval(b.X), e.eval(b.Y)
			if x.isConst() || y.isConst() {
				if b.Op == token.MUL || loopCounter(b) {
					return
				}
			}
			guards := e.guardsAt(b.Block())
			// candidate single-value bounds: every leaf mentioned by a guard or operand
			leaves := map[string]bool{}
			for _, g := range append([]lin{x, y}, guards...) {
				for l := range g.c {
					leaves[l] = true
				}
			}
			okc := false
			what := ""
			switch b.Op {
			case token.ADD:
				what = "add"
				for l := range leaves {
					if e.entails(linLeaf(l).sub(x).sub(y), guards) {
						okc = true
					}
				}
			case token.SUB:
				what = "sub"
				if e.entails(x.sub(y), guards) {
					if e.entails(y, guards) {
						okc = true
					}
					for l := range leaves {
						if _, self := y.c[l]; !self && e.entails(y.sub(linLeaf(l)), guards) {
							okc = true
						}
					}
				}
			case token.MUL:
				what = "mul"
			}
			ck := fmt.Sprintf("%s:%s", name, what)
			count[ck]++
			r.check(okc, rule, fmt.Sprintf("%s#%d", ck, count[ck]), w.instrPos(in), "cannot wrap: bounded through the dominating comparisons", fmt.Sprintf("(%s) %s (%s) can overflow int64 for CRC-consistent metadata with an absurd field: the bound it feeds compares a wrapped value, so an out-of-range offset/size is accepted and later drives an out-of-bounds read or an absurd allocation", x.String(), b.Op.String(), y.String()))
		})
	}
}

// loopCounter: i+1 feeding the loop's own index phi.
func loopCounter(b *ssa.BinOp) bool {
	for _, ref := range *b.Referrers() {
		if ph, ok := ref.(*ssa.Phi); ok && (b.X == ssa.Value(ph)) {
			return true
		}
	}
	return false
}
