package main

import (
	"fmt"
	"go/token"
	"go/types"
	"sort"
	"strings"

	"golang.org/x/tools/go/ssa"
)

// C19 — corrupted or malformed files fail cleanly.

func init() { register("C19", checkC19) }

func checkC19(w *World, r *Report, tier string) propMeta {
	nSinks := c19R1(w, r)
	c19R2(w, r)
	c19R3(w, r)
	c19R4(w, r)
	c19R5(w, r)
	c19R6(w, r)
	c14R2(w, r, "C19.R7")
	c20R8(w, r, "C19.R10")
	c03R7(w, r, "C19.R11") // a failed chunk read leaves no released buffer behind in the cursor (released twice ⇒ two scans share one array ⇒ rows that were never written)
	c19R8(w, r)
	c19R9(w, r)
	return propMeta{
		explanation: fmt.Sprintf("(R1) range checker: every decoded length or metadata framing field that reaches an allocation size or a slice bound in the read path (%d sinks) is bounded first — for each non-constant leaf of the bound expression there are dominating comparisons whose safe edge leads to the sink and whose direction (derived from the sign of the leaf on each side of the comparison, looking through + and −) provides the needed bound: lower and upper for signed values at slice bounds, upper for unsigned decoded lengths, lower for len()-derived bounds, lower locally plus the validated-metadata facts of R3–R5 for framing fields at allocations; (R2) verify before parse: JSON decoding of the footer follows the CRC-equal edge, filter decoding follows the section CRC, decompression and the uncompressed pass-through follow the row-data hash check (or the no-hash edge), rows are scanned only after a successful decode; (R3) ReadFileMetadata returns metadata only after validate succeeded; (R4) validate/validateFilterSection compare each framing field with a lower bound and, by subtraction, with an upper bound, each failing edge returning an error; (R5) planBlockFilterReads-ok precedes any open/read of the filter pass and validateFilterSection-ok precedes chunk reads and slicing; (R6) decompressors are read only through io.ReadFull into a buffer of the declared size plus a one-byte probe; (R7) failures are recorded, never dropped (= C14.R2).", nSinks),
		notDecided:  "That no third-party decoder (gjson, bloom, snappy, zstd, encoding/json) panics on hostile input; DataBlockMetadata.UncompressedSize is not one of the framing fields the property quantifies over and is only bounded from below before it sizes the decompression buffer (an observation, recorded in DESIGN.md).",
	}
}

var readPathFuncs = []string{
	"ReadFileMetadata", "fileMetadataFromBytesWithHash", "parseFilterSection", "ReadDataBlockBloomFilters",
	"blockFilterCursor.filtersFor", "blockFilterCursor.heldSection", "blockFilterCursor.readChunkFrom", "blockFilterCursor.release",
	"planBlockFilterReads", "decodeBlockRowDataInto", "decodeBlockRowData", "ReadDataBlockRowData", "readPooledBlockRowData",
	"BlockRowScanner.Next", "NewBlockRowScanner", "BloomSearchEngine.copyDataBlock", "BloomSearchEngine.loadBlockRowData", "getScanBuffer", "readFullAt",
}

var framingFields = map[string]bool{"RowDataSize": true, "RowDataOffset": true, "BloomFilterSize": true, "BloomFilterOffset": true, "BlockFilterRegionOffset": true, "BlockFilterRegionSize": true, "FileFilterSectionSize": true}

// afterValidate names the functions that are only ever entered for a block
// whose filter section has just passed validateFilterSection (checked by
// C19.R5 and by the who-may-call obligation below), with the reason.
var afterValidate = map[string]string{
	"blockFilterCursor.heldSection":   "called only from filtersFor after validateFilterSection-ok",
	"blockFilterCursor.readChunkFrom": "called only from filtersFor after validateFilterSection-ok; later blocks are validated inside its own loop before they extend the chunk",
}

type leafInfo struct {
	key       string
	unsigned  bool
	isLen     bool
	framing   bool
	uncSize   bool
	localOnly bool
}

// boundLeaves lists the non-constant leaves of a bound expression.
func boundLeaves(w *World, v ssa.Value) []leafInfo {
	var out []leafInfo
	seen := map[string]bool{}
	var rec func(v ssa.Value, d int)
	rec = func(v ssa.Value, d int) {
		if v == nil || d > 12 {
			return
		}
		switch x := v.(type) {
		case *ssa.Const:
			return
		case *ssa.BinOp:
			rec(x.X, d+1)
			rec(x.Y, d+1)
			return
		case *ssa.Convert:
			rec(x.X, d+1)
			return
		case *ssa.ChangeType:
			rec(x.X, d+1)
			return
		case *ssa.Phi:
			if strings.Contains(x.Comment, "rangeindex") {
				return
			}
			for _, e := range x.Edges {
				rec(e, d+1)
			}
			return
		case *ssa.Call:
			if b, ok := x.Call.Value.(*ssa.Builtin); ok && (b.Name() == "len" || b.Name() == "cap") {
				arg := x.Call.Args[0]
				if ms, ok := arg.(*ssa.MakeSlice); ok {
					if _, isC := ms.Len.(*ssa.Const); isC {
						return // length of a constant-size buffer
					}
				}
				if sl, ok := arg.(*ssa.Slice); ok && sl.Low == nil && (sl.High == nil || isConstVal(sl.High)) {
					if a, ok := sl.X.(*ssa.Alloc); ok {
						if _, isArr := a.Type().Underlying().(*types.Pointer).Elem().Underlying().(*types.Array); isArr {
							return // make([]T, const) lowered to an array: constant length
						}
					}
				}
				if _, isC := arg.(*ssa.Const); isC {
					return
				}
				k := b.Name() + "(" + w.path(arg) + ")"
				if !seen[k] {
					seen[k] = true
					out = append(out, leafInfo{key: k, isLen: true})
				}
				return
			}
			if b, ok := x.Call.Value.(*ssa.Builtin); ok && (b.Name() == "min" || b.Name() == "max") {
				for _, a := range x.Call.Args {
					rec(a, d+1)
				}
				return
			}
		}
		k := leafKey(w, v)
		if seen[k] {
			return
		}
		seen[k] = true
		li := leafInfo{key: k}
		if bt, ok := v.Type().Underlying().(*types.Basic); ok && bt.Info()&types.IsUnsigned != 0 {
			li.unsigned = true
		}
		if _, f, _, ok := w.structFieldOf(v); ok {
			li.framing = framingFields[f]
			li.uncSize = f == "UncompressedSize"
			// FileFilterSectionSize is bounded only where it is read (ReadFileMetadata), not by validate
			li.localOnly = f == "FileFilterSectionSize"
		}
		// Only values that come out of the file are tainted: decoded integers
		// and metadata framing fields (and, above, len()-derived bounds).
		// Internal state (a scanner's position, a helper's size parameter, the
		// file size reported by Seek) is the caller's or the type's own invariant.
		decoded := false
		if c, ok := v.(*ssa.Call); ok && strings.HasPrefix(w.calleeName(&c.Call), "(encoding/binary.littleEndian).Uint") {
			decoded = true
		}
		if !decoded && !li.framing && !li.uncSize {
			return
		}
		out = append(out, li)
	}
	rec(v, 0)
	return out
}

// leafKey: a stable key for a leaf value (calls keyed by callee + result index, loads by access path).
func leafKey(w *World, v ssa.Value) string {
	switch x := v.(type) {
	case *ssa.Call:
		return "call:" + w.calleeName(&x.Call) + "@" + w.instrPos(x)
	case *ssa.Extract:
		return leafKey(w, x.Tuple) + fmt.Sprintf("#%d", x.Index)
	}
	return w.path(v)
}

// signIn returns +1/-1 when leaf key occurs in expr with that sign (through + and −), 0 when absent, 2 when mixed/unknown.
func signIn(w *World, key string, expr ssa.Value, d int) int {
	if expr == nil || d > 12 {
		return 0
	}
	switch x := expr.(type) {
	case *ssa.Const:
		return 0
	case *ssa.BinOp:
		a, b := signIn(w, key, x.X, d+1), signIn(w, key, x.Y, d+1)
		switch x.Op {
		case token.ADD:
		case token.SUB:
			if b == 1 {
				b = -1
			} else if b == -1 {
				b = 1
			}
		default:
			if a != 0 || b != 0 {
				return 2
			}
			return 0
		}
		switch {
		case a == 0:
			return b
		case b == 0:
			return a
		case a == b:
			return a
		}
		return 2
	case *ssa.Convert:
		return signIn(w, key, x.X, d+1)
	case *ssa.ChangeType:
		return signIn(w, key, x.X, d+1)
	case *ssa.Phi:
		s := 0
		for _, e := range x.Edges {
			t := signIn(w, key, e, d+1)
			if t == 0 {
				continue
			}
			if s == 0 {
				s = t
			} else if s != t {
				return 2
			}
		}
		return s
	case *ssa.Call:
		if b, ok := x.Call.Value.(*ssa.Builtin); ok && (b.Name() == "len" || b.Name() == "cap") {
			if b.Name()+"("+w.path(x.Call.Args[0])+")" == key {
				return 1
			}
			return 0
		}
	}
	if leafKey(w, expr) == key {
		return 1
	}
	return 0
}

// guardsFor finds the dominating comparisons that bound the leaf: it returns
// whether a lower and an upper bound exist on the edge leading to sinkBlock.
func guardsFor(w *World, key string, sinkBlock *ssa.BasicBlock) (lower, upper bool, sites []string) {
	for d := sinkBlock; d != nil; d = d.Idom() {
		dom := d.Idom()
		if dom == nil {
			break
		}
		ifi, ok := dom.Instrs[len(dom.Instrs)-1].(*ssa.If)
		if !ok {
			continue
		}
		// which successor of dom leads (dominates) to d
		taken := -1
		for si, s := range dom.Succs {
			if s == d || s.Dominates(d) {
				if taken >= 0 {
					taken = -2
				} else {
					taken = si
				}
			}
		}
		if taken < 0 {
			continue
		}
		// d must be reached only through that edge
		if len(dom.Succs[taken].Preds) != 1 {
			continue
		}
		cond := ifi.Cond
		neg := false
		for {
			if u, ok := cond.(*ssa.UnOp); ok && u.Op == token.NOT {
				cond = u.X
				neg = !neg
				continue
			}
			break
		}
		b, ok := cond.(*ssa.BinOp)
		if !ok {
			continue
		}
		holds := (taken == 0) != neg // the comparison itself holds on the safe edge?
		// normalise to small ≤ big on the safe edge
		var small, big ssa.Value
		switch b.Op {
		case token.LSS, token.LEQ:
			if holds {
				small, big = b.X, b.Y
			} else {
				small, big = b.Y, b.X
			}
		case token.GTR, token.GEQ:
			if holds {
				small, big = b.Y, b.X
			} else {
				small, big = b.X, b.Y
			}
		case token.EQL:
			if holds {
				// equality gives both bounds when the other side does not mention the leaf
				if signIn(w, key, b.X, 0) == 1 && signIn(w, key, b.Y, 0) == 0 || signIn(w, key, b.Y, 0) == 1 && signIn(w, key, b.X, 0) == 0 {
					lower, upper = true, true
					sites = append(sites, w.instrPos(ifi))
				}
			}
			continue
		default:
			continue
		}
		ss, sb := signIn(w, key, small, 0), signIn(w, key, big, 0)
		if ss == 1 || sb == -1 {
			upper = true
			sites = append(sites, w.instrPos(ifi)+"(upper)")
		}
		if sb == 1 || ss == -1 {
			lower = true
			sites = append(sites, w.instrPos(ifi)+"(lower)")
		}
	}
	return
}

func c19R1(w *World, r *Report) int {
	const rule = "C19.R1"
	r.rule(rule, "range checker: every non-constant allocation size and slice bound in the read path is dominated by comparisons bounding each of its leaves in the needed direction(s)", 20)
	nSinks := 0
	for _, name := range readPathFuncs {
		fn := w.fn(name)
		if fn == nil {
			r.undecided(rule, "anchor:"+name, "-", "read-path function "+name+" not found")
			continue
		}
		fns := append([]*ssa.Function{fn}, fn.AnonFuncs...)
		for _, f := range fns {
			count := map[string]int{}
			eachInstr(f, func(in ssa.Instruction) {
				type sink struct {
					kind  string
					bound ssa.Value
					alloc bool
				}
				var sinks []sink
				switch x := in.(type) {
				case *ssa.MakeSlice:
					if _, isC := x.Len.(*ssa.Const); !isC {
						sinks = append(sinks, sink{"make", x.Len, true})
					}
				case *ssa.Call:
					if w.isCallTo(&x.Call, "getScanBuffer") {
						if _, isC := x.Call.Args[0].(*ssa.Const); !isC {
							sinks = append(sinks, sink{"getScanBuffer", x.Call.Args[0], true})
						}
					}
				case *ssa.Slice:
					for _, b := range []ssa.Value{x.Low, x.High} {
						if b == nil {
							continue
						}
						if _, isC := b.(*ssa.Const); isC {
							continue
						}
						sinks = append(sinks, sink{"slice", b, false})
					}
				}
				for _, s := range sinks {
					leaves := boundLeaves(w, s.bound)
					for _, l := range leaves {
						nSinks++
						lower, upper, sites := guardsFor(w, l.key, in.Block())
						needLower, needUpper := true, true
						viaValidate := false
						switch {
						case l.isLen:
							needUpper = false
							// a len()-derived bound needs its lower guard only when something is subtracted from it
							if signIn(w, l.key, s.bound, 0) == 1 && !hasSub(s.bound) {
								needLower = false
							}
						case l.unsigned:
							needLower = false
						case l.framing && afterValidate[baseName(w.name(outermost(f)))] != "":
							// the function runs only after validateFilterSection-ok on this block (R5): both bounds are established there
							if !lower || !upper {
								viaValidate = true
							}
							needLower, needUpper = false, false
						case s.alloc && (l.framing || l.uncSize) && !l.localOnly:
							// upper bound comes from the validated-metadata facts (R3–R5); not required locally
							if !upper {
								viaValidate = true
							}
							needUpper = false
						}
						ck := fmt.Sprintf("%s:%s(%s)", w.name(f), s.kind, stripPos(l.key))
						count[ck]++
						key := fmt.Sprintf("%s#%d", ck, count[ck])
						okc := (!needLower || lower) && (!needUpper || upper)
						detail := fmt.Sprintf("guards: %s", strings.Join(sites, " "))
						if viaValidate {
							detail += "; upper bound through validated metadata (C19.R3–R5)"
						}
						r.check(okc, rule, key, w.instrPos(in), detail, fmt.Sprintf("%s bound depends on %s without a dominating %s check (lower=%v upper=%v): a corrupted length or framing field panics (slice out of range) or drives an absurd allocation instead of returning an error", s.kind, stripPos(l.key), missingDir(needLower && !lower, needUpper && !upper), lower, upper))
					}
				}
			})
		}
	}
	for name, why := range afterValidate {
		cs := callerSet(w, name)
		r.check(len(cs) == 1 && cs["blockFilterCursor.filtersFor"], rule, "callers("+name+")", "-", why, name+" is called from "+strings.Join(sortedKeys(cs), ",")+": its bounds rely on filtersFor having validated the block's section first")
	}
	return nSinks
}

func hasSub(v ssa.Value) bool {
	switch x := v.(type) {
	case *ssa.BinOp:
		return x.Op == token.SUB || hasSub(x.X) || hasSub(x.Y)
	case *ssa.Convert:
		return hasSub(x.X)
	}
	return false
}

func missingDir(lo, hi bool) string {
	switch {
	case lo && hi:
		return "lower- and upper-bound"
	case lo:
		return "lower-bound"
	}
	return "upper-bound"
}

func stripPos(k string) string {
	if i := strings.Index(k, "@"); i >= 0 {
		j := strings.Index(k[i:], "#")
		if j >= 0 {
			return k[:i] + k[i+j:]
		}
		return k[:i]
	}
	return k
}

func c19R2(w *World, r *Report) {
	const rule = "C19.R2"
	r.rule(rule, "verify before parse: json.Unmarshal after the CRC-equal edge; filter decoding after the section CRC; decompression / pass-through after the row-data hash check; rows scanned only after a successful decode", 8)
	crcGuard := func(fnName string, isCRC func(a, b ssa.Value) bool) (*Flow, *ssa.Function) {
		fn := fnOrUndecided(w, r, rule, fnName)
		if fn == nil {
			return nil, nil
		}
		cl := &Classifier{Cond: func(c Cond, taken bool) *Event {
			if c.Y != nil && isCRC(c.X, c.Y) && ((c.Op == "!=" && !taken) || (c.Op == "==" && taken)) {
				return ev("crcEqual")
			}
			return nil
		}}
		return flowWithSummaries(w, fn, cl, false), fn
	}
	isChecksumVsStored := func(a, b ssa.Value) bool {
		pa, pb := w.path(a), w.path(b)
		one := strings.HasPrefix(pa, "call:hash/crc32.Checksum@") || strings.HasPrefix(pb, "call:hash/crc32.Checksum@")
		other := strings.Contains(pa, "Uint32@") || strings.Contains(pb, "Uint32@") || strings.HasSuffix(pa, ".RowDataHash") || strings.HasSuffix(pb, ".RowDataHash")
		return one && other
	}
	if fl, fn := crcGuard("fileMetadataFromBytesWithHash", isChecksumVsStored); fl != nil {
		n := 0
		for _, in := range w.callSitesIn(fn, "encoding/json.Unmarshal") {
			n++
			r.check(fl.Before(in).Must("crcEqual"), rule, "fileMetadataFromBytesWithHash:unmarshal-after-crc", w.instrPos(in), "footer JSON decoded only after its CRC matched", "the metadata JSON is decoded before (or without) its CRC having matched: corrupted metadata is interpreted")
		}
		if n == 0 {
			r.undecided(rule, "fileMetadataFromBytesWithHash:unmarshal", w.pos(fn.Pos()), "json.Unmarshal not found")
		}
		// the checksum is over the payload and compared with the stored hash bytes
		okArgs := false
		for _, in := range w.callSitesIn(fn, "hash/crc32.Checksum") {
			c := callOf(in)
			okArgs = w.path(c.Args[0]) == "p:payload" && w.path(c.Args[1]) == "g:crc32cTable"
		}
		r.check(okArgs, rule, "fileMetadataFromBytesWithHash:crc-over-payload", w.pos(fn.Pos()), "CRC32C over the payload", "the metadata checksum is not CRC32C over the payload bytes")
	}
	if fl, fn := crcGuard("parseFilterSection", isChecksumVsStored); fl != nil {
		n := 0
		eachInstr(fn, func(in ssa.Instruction) {
			c := callOf(in)
			if c == nil {
				return
			}
			if callee := w.staticCallee(c); callee != nil && callee.Parent() == fn {
				n++
				r.check(fl.Before(in).Must("crcEqual"), rule, fmt.Sprintf("parseFilterSection:decode-after-crc#%d", n), w.instrPos(in), "filters decoded only after the section CRC matched", "a bloom filter is decoded from a section whose CRC was not (yet) verified")
			}
		})
		if n == 0 {
			r.undecided(rule, "parseFilterSection:decode", w.pos(fn.Pos()), "filter decode calls not found")
		}
	}
	if fn := fnOrUndecided(w, r, rule, "decodeBlockRowDataInto"); fn != nil {
		cl := &Classifier{Cond: func(c Cond, taken bool) *Event {
			if c.Op == "truth" && !taken && strings.HasSuffix(w.path(c.X), ".HasRowDataHash") {
				return ev("hashSettled") // block carries no hash
			}
			if c.Y != nil && isChecksumVsStored(c.X, c.Y) && ((c.Op == "!=" && !taken) || (c.Op == "==" && taken)) {
				return ev("hashSettled")
			}
			return nil
		}}
		fl := newFlow(w, fn, cl)
		n := 0
		for _, in := range w.callSitesIn(fn, "getPooledSnappyReader", "getPooledZstdDecoder", "io.ReadFull") {
			n++
			r.check(fl.Before(in).Must("hashSettled"), rule, fmt.Sprintf("decodeBlockRowDataInto:%s-after-hash#%d", w.calleeName(callOf(in)), n), w.instrPos(in), "decompression only after the row-data hash was checked", "row data is decompressed before its CRC was checked: a corrupted stream reaches the decoder")
		}
		for i, ret := range fl.Returns() {
			if v := retOperand(ret, 0); w.path(v) == "p:compressed" {
				r.check(fl.Before(ret).Must("hashSettled"), rule, fmt.Sprintf("decodeBlockRowDataInto:passthrough-after-hash#%d", i), w.instrPos(ret), "uncompressed data returned only after the hash check", "uncompressed row data is returned without its CRC having been checked")
			}
		}
	}
	// rows scanned only after a successful decode
	for _, s := range w.callSites("NewBlockRowScanner") {
		fn := s.Fn
		if strings.HasSuffix(w.name(fn), "_test") {
			continue
		}
		fl := newFlow(w, fn, namedCalls(w, map[string]string{"readPooledBlockRowData": "decode", "decodeBlockRowData": "decode", "BloomSearchEngine.loadBlockRowData": "decode", "ReadDataBlockRowData": "decode"}))
		arg := w.path(callOf(s.Instr).Args[0])
		r.check(fl.Before(s.Instr).Must("ok:decode") && strings.Contains(arg, "#0"), rule, w.name(fn)+":scan-after-decode", w.instrPos(s.Instr), "scanner built over verified, decoded row data", "rows are scanned from data that did not pass the verified decode ("+arg+")")
	}
}

func c19R3(w *World, r *Report) {
	const rule = "C19.R3"
	r.rule(rule, "ReadFileMetadata returns metadata only after the footer CRC check, the version check and FileMetadata.validate succeeded; validate receives the data limit derived from the file size", 2)
	fn := fnOrUndecided(w, r, rule, "ReadFileMetadata")
	if fn == nil {
		return
	}
	cl := combine(namedCalls(w, map[string]string{"FileMetadata.validate": "validate", "fileMetadataFromBytesWithHash": "crc", "parseFilterSection": "parseFilters"}), &Classifier{Cond: func(c Cond, taken bool) *Event {
		if c.Y != nil && (c.Op == "!=" && !taken || c.Op == "==" && taken) {
			if k, ok := c.Y.(*ssa.Const); ok && k.Value != nil && w.typeName(k.Type()) == "uint32" && strings.Contains(w.path(c.X), "Uint32@") {
				return ev("versionOK")
			}
		}
		return nil
	}})
	fl := newFlow(w, fn, cl)
	n := 0
	for i, ret := range fl.Returns() {
		if allNil(retVals(w, ret, 0)) {
			continue
		}
		n++
		f := fl.Before(ret)
		r.check(f.Must("ok:validate") && f.Must("ok:crc") && f.Must("versionOK"), rule, fmt.Sprintf("ReadFileMetadata:return-metadata#%d", i), w.instrPos(ret), "metadata only after CRC, version and framing validation", fmt.Sprintf("ReadFileMetadata can hand out metadata with crc-ok=%v version-ok=%v validate-ok=%v: readers would seek and allocate by unvalidated offsets and sizes", f.Must("ok:crc"), f.Must("versionOK"), f.Must("ok:validate")))
	}
	if n == 0 {
		r.undecided(rule, "ReadFileMetadata:return-metadata", w.pos(fn.Pos()), "no metadata-returning return found")
	}
	for _, in := range w.callSitesIn(fn, "FileMetadata.validate") {
		lv := w.leaves(callOf(in).Args[1])
		hasSize, hasLen, hasFilter := false, false, false
		for l := range lv {
			if strings.Contains(l, ".Seek@") {
				hasSize = true
			}
			if strings.Contains(l, "Uint32@") {
				hasLen = true
			}
			if strings.HasSuffix(l, ".FileFilterSectionSize") {
				hasFilter = true
			}
		}
		r.check(hasSize && hasLen && hasFilter, rule, "ReadFileMetadata:validate(dataLimit)", w.instrPos(in), "data limit = file size − footer − metadata − file filter section", "validate's data limit is not derived from the file size minus footer, metadata and file-level filter section ("+strings.Join(sortedKeys(lv), ",")+")")
	}
}

func c19R4(w *World, r *Report) {
	const rule = "C19.R4"
	r.rule(rule, "validate tables: each framing field has a lower-bound comparison and an upper-bound comparison (by subtraction) whose failing edge returns an error", 12)
	type req struct {
		fn, field, dir string
	}
	reqs := []req{
		{"FileMetadata.validate", "BlockFilterRegionOffset", "lower"}, {"FileMetadata.validate", "BlockFilterRegionOffset", "upper"},
		{"FileMetadata.validate", "BlockFilterRegionSize", "lower"}, {"FileMetadata.validate", "BlockFilterRegionSize", "upper"},
		{"FileMetadata.validate", "RowDataOffset", "lower"}, {"FileMetadata.validate", "RowDataOffset", "upper"},
		{"FileMetadata.validate", "RowDataSize", "lower"}, {"FileMetadata.validate", "RowDataSize", "upper"},
		{"DataBlockMetadata.validateFilterSection", "BloomFilterSize", "lower"}, {"DataBlockMetadata.validateFilterSection", "BloomFilterSize", "upper"},
		{"DataBlockMetadata.validateFilterSection", "BloomFilterOffset", "lower"}, {"DataBlockMetadata.validateFilterSection", "BloomFilterOffset", "upper"},
	}
	found := map[string]bool{}
	for _, name := range []string{"FileMetadata.validate", "DataBlockMetadata.validateFilterSection"} {
		fn := fnOrUndecided(w, r, rule, name)
		if fn == nil {
			continue
		}
		for _, b := range fn.Blocks {
			ifi, ok := b.Instrs[len(b.Instrs)-1].(*ssa.If)
			if !ok {
				continue
			}
			cmp, ok := ifi.Cond.(*ssa.BinOp)
			if !ok {
				continue
			}
			// the true edge must lead to an error return without rejoining
			tb := b.Succs[0]
			if !leadsToErrorReturn(w, tb) {
				continue
			}
			// reject when X op Y: so the accepted side has !(X op Y)
			var small, big ssa.Value
			switch cmp.Op {
			case token.LSS, token.LEQ: // reject X < Y  → accept Y <= X
				small, big = cmp.Y, cmp.X
			case token.GTR, token.GEQ: // reject X > Y → accept X <= Y
				small, big = cmp.X, cmp.Y
			default:
				continue
			}
			for _, side := range []struct {
				v    ssa.Value
				role string
			}{{small, "small"}, {big, "big"}} {
				for l := range fieldLeaves(w, side.v) {
					s := signOfField(w, l, side.v)
					switch {
					case side.role == "small" && s == 1, side.role == "big" && s == -1:
						found[name+"|"+l+"|upper"] = true
					case side.role == "big" && s == 1, side.role == "small" && s == -1:
						found[name+"|"+l+"|lower"] = true
					}
				}
			}
		}
	}
	for _, q := range reqs {
		r.check(found[q.fn+"|"+q.field+"|"+q.dir], rule, q.fn+":"+q.field+":"+q.dir, "-", q.dir+" bound checked, failure returns an error", q.fn+" no longer rejects a "+q.field+" beyond its "+q.dir+" bound: CRC-consistent metadata with that field out of range would be accepted and later drive an out-of-bounds read or an absurd allocation")
	}
}

func leadsToErrorReturn(w *World, b *ssa.BasicBlock) bool {
	seen := map[*ssa.BasicBlock]bool{}
	for cur := b; cur != nil && !seen[cur]; {
		seen[cur] = true
		last := cur.Instrs[len(cur.Instrs)-1]
		switch x := last.(type) {
		case *ssa.Return:
			vs := retVals(w, x, len(x.Results)-1)
			return len(vs) > 0 && !allNil(vs)
		case *ssa.Jump:
			cur = cur.Succs[0]
		default:
			return false
		}
	}
	return false
}

// fieldLeaves: framing field names occurring in an expression.
func fieldLeaves(w *World, v ssa.Value) map[string]bool {
	out := map[string]bool{}
	var rec func(v ssa.Value, d int)
	rec = func(v ssa.Value, d int) {
		if v == nil || d > 10 {
			return
		}
		switch x := v.(type) {
		case *ssa.BinOp:
			rec(x.X, d+1)
			rec(x.Y, d+1)
		case *ssa.Convert:
			rec(x.X, d+1)
		default:
			if _, f, _, ok := w.structFieldOf(v); ok && framingFields[f] {
				out[f] = true
			}
			// locals derived from a field by conversion (regionOffset := int64(m.BlockFilterRegionOffset))
		}
	}
	rec(v, 0)
	return out
}

func signOfField(w *World, field string, v ssa.Value) int {
	switch x := v.(type) {
	case *ssa.BinOp:
		a, b := signOfField(w, field, x.X), signOfField(w, field, x.Y)
		if x.Op == token.SUB {
			b = -b
		} else if x.Op != token.ADD {
			return 0
		}
		if a != 0 {
			return a
		}
		return b
	case *ssa.Convert:
		return signOfField(w, field, x.X)
	}
	if _, f, _, ok := w.structFieldOf(v); ok && f == field {
		return 1
	}
	return 0
}

func c19R5(w *World, r *Report) {
	const rule = "C19.R5"
	r.rule(rule, "plan before read: in evaluateBlockFilters planBlockFilterReads-ok precedes acquire/filtersFor; in filtersFor validateFilterSection-ok precedes readChunkFrom/heldSection; planBlockFilterReads validates every block", 4)
	if fn := fnOrUndecided(w, r, rule, "BloomSearchEngine.evaluateBlockFilters"); fn != nil {
		fl := newFlow(w, fn, namedCalls(w, map[string]string{"planBlockFilterReads": "plan"}))
		for _, in := range w.callSitesIn(fn, "fileHandlePool.acquire", "blockFilterCursor.filtersFor") {
			r.check(fl.Before(in).Must("ok:plan"), rule, "evaluateBlockFilters:"+w.calleeName(callOf(in))+"-after-plan", w.instrPos(in), "region metadata validated before any I/O", "the filter pass opens or reads before the region metadata was validated")
		}
	}
	if fn := fnOrUndecided(w, r, rule, "blockFilterCursor.filtersFor"); fn != nil {
		fl := newFlow(w, fn, namedCalls(w, map[string]string{"DataBlockMetadata.validateFilterSection": "validate"}))
		for _, in := range w.callSitesIn(fn, "blockFilterCursor.readChunkFrom", "blockFilterCursor.heldSection") {
			r.check(fl.Before(in).Must("ok:validate"), rule, "filtersFor:"+w.calleeName(callOf(in))+"-after-validate", w.instrPos(in), "section validated first", "a block's section is read or sliced before it was validated against the region")
		}
	}
	if fn := fnOrUndecided(w, r, rule, "planBlockFilterReads"); fn != nil {
		sites := w.callSitesIn(fn, "DataBlockMetadata.validateFilterSection")
		okc := len(sites) == 1
		if okc {
			fl := newFlow(w, fn, namedCalls(w, map[string]string{"DataBlockMetadata.validateFilterSection": "validate"}))
			backs := loopBackEdgeFacts(fl, sites[0])
			okc = len(backs) > 0
			for _, f := range backs {
				if !f.Must("ok:validate") {
					okc = false
				}
			}
		}
		r.check(okc, rule, "planBlockFilterReads:validates-every-block", w.pos(fn.Pos()), "every block's section validated", "planBlockFilterReads can accept a file without validating every block's filter section")
	}
}

func c19R6(w *World, r *Report) {
	const rule = "C19.R6"
	r.rule(rule, "bounded decompression: decompressors are read only through io.ReadFull into the declared-size buffer plus a one-byte probe; no io.ReadAll/io.Copy/ReadFrom on untrusted streams in the read path", 3)
	fn := fnOrUndecided(w, r, rule, "decodeBlockRowDataInto")
	if fn == nil {
		return
	}
	n := 0
	for _, in := range w.callSitesIn(fn, "io.ReadFull") {
		n++
		c := callOf(in)
		buf := c.Args[1]
		okc := false
		switch x := buf.(type) {
		case *ssa.Phi:
			okc = true
			for _, e := range x.Edges {
				switch y := e.(type) {
				case *ssa.Slice:
					if y.High == nil || !strings.HasSuffix(w.path(y.High), ".UncompressedSize") {
						okc = false
					}
				case *ssa.MakeSlice:
					if !strings.HasSuffix(w.path(y.Len), ".UncompressedSize") {
						okc = false
					}
				default:
					okc = false
				}
			}
		case *ssa.Slice:
			// the probe: a slice of a fixed 1-byte array
			if a, ok := x.X.(*ssa.Alloc); ok && strings.Contains(a.Type().String(), "[1]byte") {
				okc = true
			}
		}
		r.check(okc, rule, fmt.Sprintf("decodeBlockRowDataInto:ReadFull#%d", n), w.instrPos(in), "reads into the declared-size buffer / 1-byte probe", "decompressed output is read into "+w.path(buf)+": not bounded by the block's declared size")
	}
	if n < 2 {
		r.bad(rule, "decodeBlockRowDataInto:ReadFull", w.pos(fn.Pos()), "the exact-length decode (declared-size read plus end-of-stream probe) is gone: a stream longer or shorter than declared is accepted")
	}
	for _, name := range readPathFuncs {
		f := w.fn(name)
		if f == nil {
			continue
		}
		for _, g := range append([]*ssa.Function{f}, f.AnonFuncs...) {
			eachInstr(g, func(in ssa.Instruction) {
				if c := callOf(in); c != nil {
					switch w.calleeName(c) {
					case "io.ReadAll", "io.Copy", "io.CopyN", "(*bytes.Buffer).ReadFrom", "os.ReadFile":
						r.bad(rule, w.name(g)+":"+w.calleeName(c), w.instrPos(in), w.calleeName(c)+" reads an untrusted stream without a size bound")
					}
				}
			})
		}
	}
	r.ok(rule, "read-path:no-unbounded-reads", "-", fmt.Sprintf("%d read-path functions scanned", len(readPathFuncs)))
}

var _ = sort.Strings

func isConstVal(v ssa.Value) bool {
	_, ok := v.(*ssa.Const)
	return ok
}
