package main

import (
	"fmt"
	"strings"

	"golang.org/x/tools/go/ssa"
)

// C13 — merge is all-or-nothing and commits only durable output.

func init() { register("C13", checkC13) }

func checkC13(w *World, r *Report, tier string) propMeta {
	c13R1(w, r)
	c13R2R3R4(w, r)
	c13R5(w, r)
	c14R3(w, r, "C13.R6")
	c06R5(w, r) // no Write/Close/CreateFile/OpenFile/Update error on the merge path is dropped: a swallowed failure would commit a partial output
	return propMeta{
		explanation: "Merge's commit protocol as path rules over executeMergeGroup, merge and Merge: (R1) a group's output pointer is returned only after footer-ok and Close-ok, and every failure return after CreateFile-ok passes abortFileWriter (C06.R2 covers the same exits); (R2) MetaStore.Update is unreachable from any failed group and Close-ok dominates the commit through R1; on a failed group the earlier outputs are tombstoned before the error return; (R3) a source pointer (DeleteOperation) is tombstoned only after Update-ok, an output pointer (WriteOperation) only after a failure edge and only on paths that return a non-nil error; (R4) every failure edge (iterator collection, group, Update) returns (nil, provably non-nil error), the stats return is unreachable from them, and the ErrPostCommitCleanup wrap is built only after Update-ok from a non-empty tombstone-error list; (R5) merge runs only under mergeMu.TryLock's true edge with Unlock deferred and the false edge returns ErrMergeInProgress; (R6) atomicity of the shipped stores' Update (known finding F1 for FileSystemDataStore).",
		notDecided:  "The fault enumeration itself (which store call fails when); concurrency of Merge with queries (C14).",
	}
}

// retVals resolves the possible values of result i of a Return, looking
// through result cells, phis and `return closure(...)` forwarding.
func retVals(w *World, ret *ssa.Return, i int) []ssa.Value {
	var out []ssa.Value
	seen := map[ssa.Value]bool{}
	var rec func(v ssa.Value, depth int)
	rec = func(v ssa.Value, depth int) {
		if v == nil || seen[v] || depth > 6 {
			return
		}
		seen[v] = true
		switch x := v.(type) {
		case *ssa.Phi:
			for _, e := range x.Edges {
				rec(e, depth+1)
			}
			return
		case *ssa.Extract:
			if call, ok := x.Tuple.(*ssa.Call); ok {
				if callee := w.staticCallee(&call.Call); callee != nil && w.ours(callee) && (callee.Parent() != nil || w.absorbable(callee)) {
					for _, b := range callee.Blocks {
						if len(b.Instrs) == 0 {
							continue
						}
						if rr, ok := b.Instrs[len(b.Instrs)-1].(*ssa.Return); ok && x.Index < len(rr.Results) {
							rv := retOperand(rr, x.Index)
							if p, isParam := rv.(*ssa.Parameter); isParam {
								// forwarded parameter: the argument at this call site
								for pi, pp := range callee.Params {
									if pp == p && pi < len(call.Call.Args) {
										rec(call.Call.Args[pi], depth+1)
									}
								}
							} else {
								rec(rv, depth+1)
							}
						}
					}
					return
				}
			}
		}
		out = append(out, v)
	}
	rec(retOperand(ret, i), 0)
	return out
}

func allNil(vs []ssa.Value) bool {
	for _, v := range vs {
		if !isNilConst(v) {
			return false
		}
	}
	return len(vs) > 0
}

func (w *World) allNonNilAt(vs []ssa.Value, at ssa.Instruction) bool {
	for _, v := range vs {
		if isNilConst(v) {
			return false
		}
		use := at
		if in, ok := v.(ssa.Instruction); ok && in.Parent() != at.Parent() {
			use = in
		}
		if !w.nonNilAt(v, use) {
			// a value defined in a closure's caller: test dominance at the call that forwards it
			ok2 := false
			if refs := v.Referrers(); refs != nil {
				for _, ref := range *refs {
					if c, ok := ref.(*ssa.Call); ok && w.nonNilAt(v, c) {
						ok2 = true
					}
				}
			}
			if !ok2 {
				return false
			}
		}
	}
	return len(vs) > 0
}

func c13R1(w *World, r *Report) {
	const rule = "C13.R1"
	r.rule(rule, "executeMergeGroup returns a non-nil output pointer only after footer-ok and Close-ok, with a nil error; all other returns yield a nil pointer and a non-nil error", 6)
	fn := fnOrUndecided(w, r, rule, "BloomSearchEngine.executeMergeGroup")
	if fn == nil {
		return
	}
	fl := flowWithSummaries(w, fn, writePathClassifier(w), false)
	for i, ret := range fl.Returns() {
		f := fl.Before(ret)
		ptr := retVals(w, ret, 0)
		errv := retVals(w, ret, 2)
		if allNil(ptr) {
			r.check(w.allNonNilAt(errv, ret), rule, fmt.Sprintf("executeMergeGroup:return#%d(failure)", i), w.instrPos(ret), "nil pointer with a non-nil error", "a group can fail (nil pointer) while returning a possibly-nil error: merge would treat it as success and commit a nil pointer")
			continue
		}
		r.check(f.Must("ok:Close") && f.Must("ok:Footer") && f.Must("ok:finish") && allNil(errv), rule, fmt.Sprintf("executeMergeGroup:return#%d(success)", i), w.instrPos(ret),
			"output pointer only after footer-ok and Close-ok", fmt.Sprintf("an output pointer is returned without finish-ok=%v footer-ok=%v Close-ok=%v nil-error=%v: merge could commit a file that was never durably published and then delete the sources", f.Must("ok:finish"), f.Must("ok:Footer"), f.Must("ok:Close"), allNil(errv)))
	}
}

func mergeClassifier(w *World) *Classifier {
	names := map[string]string{
		"BloomSearchEngine.executeMergeGroup": "emg",
		"MetaStore.Update":                    "Update",
		"collectMaybeFiles":                   "collect",
	}
	extra := &Classifier{
		Call: func(site ssa.Instruction, c *ssa.CallCommon) *Event {
			if w.calleeName(c) == "DataStore.TombstoneFile" && len(c.Args) == 2 {
				owner, _, _, _ := w.structFieldOf(c.Args[1])
				switch owner {
				case "WriteOperation":
					return ev("tomb:outputs")
				case "DeleteOperation":
					return ev("tomb:sources")
				}
				return ev("tomb:other")
			}
			return nil
		},
		CallEdge: func(call ssa.Value, outcome string) *Event {
			if c, ok := call.(*ssa.Call); ok && w.calleeName(&c.Call) == "MetaStore.Update" && outcome == "ok" {
				return ev("settled") // committed
			}
			return nil
		},
		Cond: func(c Cond, taken bool) *Event {
			if c.Y != nil && isZero(c.Y) {
				if call, ok := c.X.(*ssa.Call); ok {
					if b, ok := call.Call.Value.(*ssa.Builtin); ok && b.Name() == "len" {
						t := w.typeName(call.Call.Args[0].Type())
						pos := (c.Op == ">" && taken) || (c.Op == "<=" && !taken) || (c.Op == "!=" && taken) || (c.Op == "==" && !taken)
						switch t {
						case "[]WriteOperation":
							if pos {
								return ev("haswrites")
							}
							return ev("nowrites", "settled")
						case "[]error":
							if pos {
								return ev("hasTombErrs")
							}
						}
					}
				}
			}
			return nil
		},
	}
	return combine(namedCalls(w, names), extra)
}

func c13R2R3R4(w *World, r *Report) {
	r.rule("C13.R2", "no commit after a failed group: MetaStore.Update is unreachable from an executeMergeGroup failure, and on that edge the earlier outputs are tombstoned before the error return", 2)
	r.rule("C13.R3", "sources are tombstoned only after Update-ok; outputs only after a failure edge and only on paths that return a non-nil error", 3)
	r.rule("C13.R4", "every failure edge returns (nil, non-nil error); the stats return is unreachable from failures and follows Update-ok or an empty plan; ErrPostCommitCleanup is wrapped only after Update-ok from a non-empty error list", 5)
	fn := fnOrUndecided(w, r, "C13.R2", "BloomSearchEngine.merge")
	if fn == nil {
		return
	}
	fl := newFlow(w, fn, mergeClassifier(w))
	// R2
	for _, in := range w.callSitesIn(fn, "MetaStore.Update") {
		f := fl.Before(in)
		r.check(!f.May("fail:emg") && !f.May("fail:collect"), "C13.R2", "merge:Update-after-failure", w.instrPos(in), "commit unreachable from a failed group", "MetaStore.Update is reachable after a group failed: a partial merge would be committed")
		r.check(f.Must("haswrites"), "C13.R2", "merge:Update-nonempty", w.instrPos(in), "commit only with outputs", "Update is called without outputs")
	}
	// tombstone sites
	nSrc, nOut := 0, 0
	for _, in := range w.callSitesIn(fn, "DataStore.TombstoneFile") {
		c := callOf(in)
		f := fl.Before(in)
		owner, _, _, _ := w.structFieldOf(c.Args[1])
		switch owner {
		case "DeleteOperation":
			nSrc++
			r.check(f.Must("ok:Update"), "C13.R3", fmt.Sprintf("merge:tombstone(source)#%d", nSrc), w.instrPos(in), "source removed only after the commit", "a source file is tombstoned on a path that has not passed Update-ok: a failed merge would delete sole copies of data")
		case "WriteOperation":
			nOut++
			// judged per way of reaching the site (a shared cleanup helper is
			// reached from the group-failure edge and from the Update-failure edge)
			okOut := !f.May("ok:Update")
			for _, d := range fl.Disjuncts(in) {
				if !(d.Must("fail:emg") || d.Must("fail:Update")) {
					okOut = false
				}
			}
			r.check(okOut, "C13.R3", fmt.Sprintf("merge:tombstone(output)#%d", nOut), w.instrPos(in), "output removed only after a failure", "a merge output is tombstoned on a path that may have committed it")
		default:
			r.undecided("C13.R3", "merge:tombstone(?)", w.instrPos(in), "TombstoneFile on "+w.path(c.Args[1])+": cannot tell source from output")
		}
	}
	if nSrc == 0 {
		r.bad("C13.R3", "merge:tombstone(source)", w.pos(fn.Pos()), "sources are never tombstoned after the commit")
	}
	// returns
	for i, ret := range fl.Returns() {
		f := fl.Before(ret)
		stats := retVals(w, ret, 0)
		errv := retVals(w, ret, 1)
		failed := f.May("fail:emg") || f.May("fail:Update") || f.May("fail:collect")
		if allNil(stats) {
			kind := "failure"
			okc := w.allNonNilAt(errv, ret)
			r.check(okc && failed, "C13.R4", fmt.Sprintf("merge:return#%d(%s)", i, kind), w.instrPos(ret), "(nil, non-nil error) on a failure edge", "merge returns nil stats with an error that may be nil, or without a failure having occurred: callers cannot tell an aborted merge from a committed one")
			if f.Must("fail:emg") {
				r.check(f.May("tomb:outputs"), "C13.R2", "merge:group-failure-cleanup", w.instrPos(ret), "earlier outputs tombstoned", "a failed group returns without tombstoning the outputs of the groups that completed: published orphans remain")
			}
			if f.Must("fail:Update") {
				r.check(f.May("tomb:outputs"), "C13.R3", "merge:update-failure-cleanup", w.instrPos(ret), "uncommitted outputs tombstoned", "a failed Update returns without tombstoning the outputs: with a directory-scanning MetaStore they stay visible next to their sources")
			}
			continue
		}
		r.check(!failed && f.Must("settled") && !f.May("tomb:outputs"), "C13.R4", fmt.Sprintf("merge:return#%d(stats)", i), w.instrPos(ret), "stats only when committed (or nothing to do)", "merge returns stats on a path that may have failed or did not commit")
	}
	// ErrPostCommitCleanup wrap
	n := 0
	eachInstr(fn, func(in ssa.Instruction) {
		c, ok := in.(*ssa.Call)
		if !ok || w.calleeName(&c.Call) != "fmt.Errorf" {
			return
		}
		uses := false
		for _, a := range errorfArgs(c) {
			if w.path(a) == "g:ErrPostCommitCleanup" {
				uses = true
			}
		}
		if !uses {
			return
		}
		n++
		f := fl.Before(in)
		wraps := false
		if k, ok := c.Call.Args[0].(*ssa.Const); ok && k.Value != nil && strings.HasPrefix(strings.Trim(k.Value.ExactString(), "\""), "%w") {
			wraps = true
		}
		r.check(f.Must("ok:Update") && f.Must("hasTombErrs") && wraps, "C13.R4", "merge:ErrPostCommitCleanup", w.instrPos(in), "wrapped (%w) only after the commit with tombstone errors", "ErrPostCommitCleanup is produced without Update-ok / without tombstone failures / without %w: callers would misread the merge outcome")
	})
	if n == 0 {
		r.bad("C13.R4", "merge:ErrPostCommitCleanup", w.pos(fn.Pos()), "post-commit tombstone failures are no longer reported through ErrPostCommitCleanup")
	}
}

// errorfArgs returns the variadic arguments of a fmt.Errorf call.
func errorfArgs(c *ssa.Call) []ssa.Value {
	if len(c.Call.Args) < 2 {
		return nil
	}
	sl, ok := c.Call.Args[1].(*ssa.Slice)
	if !ok {
		return nil
	}
	arr, ok := sl.X.(*ssa.Alloc)
	if !ok {
		return nil
	}
	var out []ssa.Value
	for _, ref := range *arr.Referrers() {
		if ia, ok := ref.(*ssa.IndexAddr); ok {
			for _, r2 := range *ia.Referrers() {
				if st, ok := r2.(*ssa.Store); ok && st.Addr == ia {
					v := st.Val
					for {
						switch x := v.(type) {
						case *ssa.MakeInterface:
							v = x.X
							continue
						case *ssa.ChangeInterface:
							v = x.X
							continue
						}
						break
					}
					out = append(out, v)
				}
			}
		}
	}
	return out
}

func c13R5(w *World, r *Report) {
	const rule = "C13.R5"
	r.rule(rule, "single-flight: merge is called only from Merge, under mergeMu.TryLock's true edge with Unlock deferred; the false edge returns ErrMergeInProgress", 4)
	plainCallersOnly(w, r, rule, "BloomSearchEngine.merge", "BloomSearchEngine.Merge")
	fn := fnOrUndecided(w, r, rule, "BloomSearchEngine.Merge")
	if fn == nil {
		return
	}
	cl := lockClassifier(w, nil, nil)
	inner := cl.CallEdge
	cl.CallEdge = func(call ssa.Value, outcome string) *Event {
		e := inner(call, outcome)
		if c, ok := call.(*ssa.Call); ok && isTryLock(&c.Call) && outcome == "false" {
			return mergeEvents(e, ev("busy"))
		}
		return e
	}
	fl := newFlow(w, fn, cl)
	for _, in := range w.callSitesIn(fn, "BloomSearchEngine.merge") {
		f := fl.Before(in)
		r.check(heldAny(f, ".mergeMu", true), rule, "Merge:merge-under-lock", w.instrPos(in), "merge runs with mergeMu held", "merge can run without holding mergeMu: two concurrent merges would each write every merged row")
		// unlock deferred
		deferred := false
		eachInstr(fn, func(x ssa.Instruction) {
			if d, ok := x.(*ssa.Defer); ok && (w.calleeName(&d.Call) == "(*sync.Mutex).Unlock") && strings.HasSuffix(w.path(d.Call.Args[0]), ".mergeMu") {
				if ff := fl.Before(x); ff != nil && heldAny(ff, ".mergeMu", true) {
					deferred = true
				}
			}
		})
		r.check(deferred, rule, "Merge:defer-unlock", w.instrPos(in), "Unlock deferred after acquiring", "mergeMu is not released by a defer: a panic or early return wedges every later Merge")
	}
	// the candidate listing belongs to the exclusive section: a listing taken
	// before the lock can be stale by the time the lock is acquired (another
	// merge has consumed those sources), and merging from it commits a second
	// output for the same rows
	nList := 0
	for _, name := range []string{"BloomSearchEngine.Merge", "BloomSearchEngine.merge"} {
		g := w.fn(name)
		if g == nil {
			continue
		}
		for _, in := range w.callSitesIn(g, "MetaStore.GetMaybeFilesForQuery") {
			nList++
			if g != fn {
				continue // inside merge: under the lock by the obligation above
			}
			r.check(heldAny(fl.Before(in), ".mergeMu", true), rule, "Merge:listing-under-lock", w.instrPos(in), "candidates listed with mergeMu held", "the merge lists its candidate files before taking mergeMu: a Merge that listed while another was in flight merges sources that no longer exist as such — their rows end up in two outputs")
		}
	}
	if nList == 0 {
		r.undecided(rule, "Merge:listing", w.pos(fn.Pos()), "the candidate listing (MetaStore.GetMaybeFilesForQuery) was not found in Merge/merge")
	}
	n := 0
	for _, ret := range fl.Returns() {
		f := fl.Before(ret)
		if !f.Must("busy") {
			continue
		}
		n++
		ev := retVals(w, ret, 1)
		okc := len(ev) == 1 && w.path(ev[0]) == "g:ErrMergeInProgress" && allNil(retVals(w, ret, 0))
		r.check(okc, rule, "Merge:busy-return", w.instrPos(ret), "returns (nil, ErrMergeInProgress)", "a concurrent Merge does not return ErrMergeInProgress")
	}
	if n == 0 {
		r.bad(rule, "Merge:busy-return", w.pos(fn.Pos()), "no return on TryLock's false edge: concurrent merges are not refused")
	}
}
