package main

import (
	"fmt"
	"go/token"
	"go/types"
	"sort"
	"strings"

	"golang.org/x/tools/go/ssa"
)

// C20 — the cursor's terminal state; C21 — resources released;
// C22 — concurrency budget; C23 — statistics exactly once; C24 — pruning is effective.

func init() {
	register("C20", checkC20)
	register("C21", checkC21)
	register("C22", checkC22)
	register("C23", checkC23)
	register("C24", checkC24)
}

func queryRegion(w *World) map[*ssa.Function]bool {
	return w.reachableFuncs(true, w.fn("BloomSearchEngine.Query"))
}

// queryClosure finds the closure of Query that (directly) calls callee.
func queryClosure(w *World, callee string) *ssa.Function {
	q := w.fn("BloomSearchEngine.Query")
	for _, fn := range w.Funcs {
		if fn.Parent() == nil || outermost(fn) != q {
			continue
		}
		if len(w.callSitesIn(fn, callee)) > 0 {
			return fn
		}
	}
	return nil
}

func checkC20(w *World, r *Report, tier string) propMeta {
	c20R1(w, r)
	c20R2(w, r)
	c20R3(w, r)
	r.rule("C20.R4", "Results' shared fields (errs, blockStats, duration, finished, finalized, err) are accessed only under Results.mu", 12)
	guardedAccessCheck(w, r, "C20.R4", "Results", []string{"errs", "blockStats", "duration", "finished", "finalized", "err"}, ".mu", nil)
	c20R5(w, r)
	c20R6(w, r)
	c20R7(w, r)
	c20R8(w, r, "C20.R8")
	c20R9(w, r)
	c14R2(w, r, "C20.R10") // every failure edge of the query region is recorded before the function that saw it returns — in particular before the file stage signals completion
	return propMeta{
		explanation: "The cursor's terminal state as path, lock and ownership rules: (R1) Results.err is written only under mu, on the not-yet-finalized edge, together with finalized = true; (R2) every `return false` of Next follows finish (directly or through terminate) or the iterDone test, and finish sets iterDone; (R3) Close runs its body under closeOnce, cancels, waits for done and returns nil; terminate cancels and waits for done before reading the recorded errors and wraps the caller's context error with %w when it is set; (R4) the guarded-by table of Results; (R5) no worker can wedge: every channel operation in the goroutines Query starts is a select with the query context's Done() case or a default (one named exception: querySlot.release takes back the token the slot itself sent); (R6) teardown order fileWorkers.Wait → close(blockJobs) → blockWorkers.Wait → handles.closeAll → markWorkersDone.",
		notDecided:  "Interleavings of Next/Close themselves; MetaStore iterators that ignore ctx (a contract of the store).",
	}
}

func c20R1(w *World, r *Report) {
	const rule = "C20.R1"
	r.rule(rule, "decided once: every store to Results.err is under mu, on the true edge of !finalized, with finalized set to true on the same path", 2)
	n := 0
	for _, fa := range w.fieldAccesses("Results") {
		if fa.Field != "err" || !fa.Write || fa.InInit {
			continue
		}
		n++
		cl := lockClassifier(w, []string{"notFinalized"}, func(c Cond, taken bool) *Event {
			if c.Op == "truth" && !taken && strings.HasSuffix(w.path(c.X), ".finalized") {
				return ev("notFinalized")
			}
			return nil
		})
		inner := cl.Instr
		cl.Instr = func(in ssa.Instruction) *Event {
			var e *Event
			if inner != nil {
				e = inner(in)
			}
			if st, ok := in.(*ssa.Store); ok {
				if o, f, _, ok := w.structFieldOf(st.Addr); ok && o == "Results" && f == "finalized" {
					if b, isC := constBool(st.Val); isC && b {
						return mergeEvents(e, ev("finalizedSet"))
					}
				}
			}
			return e
		}
		fl := newFlow(w, fa.Fn, cl)
		f := fl.Before(fa.Instr)
		// finalized = true on the same path: before this store, or after it before the unlock
		setOnPath := f.Must("finalizedSet")
		if !setOnPath {
			for _, in := range fa.Instr.Block().Instrs {
				if st, ok := in.(*ssa.Store); ok {
					if o, fld, _, ok := w.structFieldOf(st.Addr); ok && o == "Results" && fld == "finalized" {
						setOnPath = true
					}
				}
			}
		}
		r.check(heldAny(f, ".mu", true) && f.Must("notFinalized") && setOnPath, rule, "store(err)@"+w.name(fa.Fn), w.instrPos(fa.Instr), "first finalizer wins, under the lock", fmt.Sprintf("Results.err is written with lock-held=%v not-finalized-checked=%v finalized-set=%v: a later finalizer (Close after Next, or the reverse) can overwrite a decided terminal state", heldAny(f, ".mu", true), f.Must("notFinalized"), setOnPath))
	}
	if n < 2 {
		r.undecided(rule, "store(err)", "-", fmt.Sprintf("expected two finalizers (finish, Close), found %d stores to Results.err", n))
	}
}

func c20R2(w *World, r *Report) {
	const rule = "C20.R2"
	r.rule(rule, "Next's false returns are terminal: each follows finish/terminate or the iterDone test; finish sets iterDone; terminate returns false after finish", 5)
	fn := fnOrUndecided(w, r, rule, "Results.Next")
	if fn == nil {
		return
	}
	cl := &Classifier{
		Call: func(site ssa.Instruction, c *ssa.CallCommon) *Event {
			if w.isCallTo(c, "Results.finish", "Results.terminate") {
				return ev("terminal")
			}
			return nil
		},
		Cond: func(c Cond, taken bool) *Event {
			if c.Op == "truth" && taken && w.path(c.X) == "p:r.iterDone" {
				return ev("terminal")
			}
			return nil
		},
	}
	fl := newFlow(w, fn, cl)
	n := 0
	for i, ret := range fl.Returns() {
		vs := retVals(w, ret, 0)
		falseRet := false
		for _, v := range vs {
			if b, isC := constBool(v); isC && !b {
				falseRet = true
			}
			if c, ok := v.(*ssa.Call); ok && w.isCallTo(&c.Call, "Results.terminate") {
				falseRet = true
			}
		}
		if !falseRet {
			continue
		}
		n++
		r.check(fl.Before(ret).Must("terminal"), rule, fmt.Sprintf("Next:return-false#%d", i), w.instrPos(ret), "false only in a terminal state", "Next can return false without the terminal state being decided: Err would still be nil and a later Next could return rows again")
	}
	if n == 0 {
		r.undecided(rule, "Next:return-false", w.pos(fn.Pos()), "no false return found")
	}
	if fin := fnOrUndecided(w, r, rule, "Results.finish"); fin != nil {
		ffl := newFlow(w, fin, &Classifier{Instr: func(in ssa.Instruction) *Event {
			if st, ok := in.(*ssa.Store); ok && deref(w.path(st.Addr)) == "p:r.iterDone" {
				if b, isC := constBool(st.Val); isC && b {
					return ev("iterDone")
				}
			}
			return nil
		}, Call: func(site ssa.Instruction, c *ssa.CallCommon) *Event {
			if w.calleeName(c) == "dyn:p:r.cancel" {
				return ev("cancelled")
			}
			return nil
		}})
		for i, ret := range ffl.Returns() {
			f := ffl.Before(ret)
			r.check(f.Must("iterDone") && f.Must("cancelled"), rule, fmt.Sprintf("finish:return#%d", i), w.instrPos(ret), "iteration marked done and the query context cancelled", "finish can return without marking iteration done / releasing the pipeline")
		}
	}
	if term := fnOrUndecided(w, r, rule, "Results.terminate"); term != nil {
		tfl := newFlow(w, term, &Classifier{Call: func(site ssa.Instruction, c *ssa.CallCommon) *Event {
			if w.isCallTo(c, "Results.finish") {
				return ev("finished")
			}
			return nil
		}})
		for i, ret := range tfl.Returns() {
			b, isC := constBool(retOperand(ret, 0))
			r.check(isC && !b && tfl.Before(ret).Must("finished"), rule, fmt.Sprintf("terminate:return#%d", i), w.instrPos(ret), "returns false after finish", "terminate does not always finish and return false")
		}
	}
}

func c20R3(w *World, r *Report) {
	const rule = "C20.R3"
	r.rule(rule, "Close: body under closeOnce, cancel then wait for done, returns nil; terminate: cancel, wait for done, then read errors; the caller's context error is wrapped with %w", 5)
	if fn := fnOrUndecided(w, r, rule, "Results.Close"); fn != nil {
		once := w.callSitesIn(fn, "(*sync.Once).Do")
		r.check(len(once) == 1 && strings.HasSuffix(w.path(callOf(once[0]).Args[0]), ".closeOnce"), rule, "Close:closeOnce.Do", w.pos(fn.Pos()), "idempotent through sync.Once", "Close's body is not guarded by closeOnce: a second Close re-runs teardown and can rewrite the terminal state")
		for i, ret := range newFlow(w, fn, &Classifier{}).Returns() {
			r.check(allNil(retVals(w, ret, 0)), rule, fmt.Sprintf("Close:return#%d", i), w.instrPos(ret), "returns nil", "Close can return a non-nil error")
		}
	}
	waitOrder := func(name string, fn *ssa.Function) {
		cl := &Classifier{
			Call: func(site ssa.Instruction, c *ssa.CallCommon) *Event {
				if w.calleeName(c) == "dyn:p:r.cancel" {
					return ev("cancelled")
				}
				return nil
			},
			Instr: func(in ssa.Instruction) *Event {
				if u, ok := in.(*ssa.UnOp); ok && u.Op.String() == "<-" && w.chanKey(u.X) == "Results.done" {
					return ev("waited")
				}
				return nil
			},
		}
		fl := newFlow(w, fn, cl)
		eachInstr(fn, func(in ssa.Instruction) {
			if u, ok := in.(*ssa.UnOp); ok && u.Op.String() == "<-" && w.chanKey(u.X) == "Results.done" {
				r.check(fl.Before(in).Must("cancelled"), rule, name+":cancel-before-wait", w.instrPos(in), "pipeline cancelled before waiting for it", name+" waits for the pipeline without cancelling it first: Close/terminate can block until the query completes on its own")
			}
		})
		for i, ret := range fl.Returns() {
			r.check(fl.Before(ret).Must("waited"), rule, fmt.Sprintf("%s:waits-for-pipeline#%d", name, i), w.instrPos(ret), "returns only after the pipeline has exited", name+" can return without having waited for the query pipeline to exit: Next returns false (or Close returns) while workers still hold handles and semaphore slots and the MetaStore iterator is still running")
		}
		for _, in := range w.callSitesIn(fn, "Results.joinedErrs") {
			r.check(fl.Before(in).Must("waited"), rule, name+":errors-read-after-wait", w.instrPos(in), "errors read after the workers stopped", name+" reads the recorded errors before the workers have stopped: late failures are lost from Err")
		}
	}
	for _, fn := range w.Funcs {
		if fn.Parent() != nil && w.name(fn.Parent()) == "Results.Close" {
			waitOrder("Close", fn)
		}
	}
	if fn := fnOrUndecided(w, r, rule, "Results.terminate"); fn != nil {
		waitOrder("terminate", fn)
		wrapped := false
		eachInstr(fn, func(in ssa.Instruction) {
			if c, ok := in.(*ssa.Call); ok && w.calleeName(&c.Call) == "fmt.Errorf" {
				k, isC := c.Call.Args[0].(*ssa.Const)
				for _, a := range errorfArgs(c) {
					if strings.Contains(w.path(a), "call:context.Context.Err@") && isC && strings.Contains(k.Value.ExactString(), "%w") {
						if cc, ok := a.(*ssa.Call); ok && w.path(cc.Call.Value) == "p:r.callerCtx" {
							wrapped = true
						}
					}
				}
			}
		})
		r.check(wrapped, rule, "terminate:wraps-caller-ctx-error", w.pos(fn.Pos()), "fmt.Errorf(…%w, callerCtx.Err())", "a cancelled query's Err no longer wraps the caller's context error with %w: errors.Is(err, context.Canceled) fails and a cancelled query can look complete")
	}
}

func c20R5(w *World, r *Report) {
	const rule = "C20.R5"
	r.rule(rule, "no worker can wedge: every channel send/receive in the goroutines Query starts is a select with the query context's Done() case or a default", 8)
	region := queryRegion(w)
	n := 0
	for _, op := range w.chanOps() {
		if !region[op.Fn] {
			continue
		}
		host := w.name(op.Fn)
		key := fmt.Sprintf("%s:%s(%s)", host, op.Kind, op.Key)
		switch op.Kind {
		case "send":
			n++
			r.bad(rule, key, w.instrPos(op.Instr), "a bare channel send in a query goroutine blocks forever once the consumer is gone: Close and context cancellation cannot end the query")
		case "recv":
			n++
			if host == "querySlot.release" && op.Key == "querySlot.sem" {
				r.ok(rule, key+"[exception]", w.instrPos(op.Instr), "named exception: release takes back the token this slot itself sent (held), so it cannot block")
				continue
			}
			if _, isDone := w.isDoneChan(op.Chan); isDone {
				r.ok(rule, key, w.instrPos(op.Instr), "waits on a context")
				continue
			}
			r.bad(rule, key, w.instrPos(op.Instr), "a bare channel receive in a query goroutine can block past cancellation")
		case "selsend", "selrecv":
			if _, isDone := w.isDoneChan(op.Chan); isDone {
				continue
			}
			n++
			okc := !op.Sel.Blocking
			for _, st := range op.Sel.States {
				if p, isDone := w.isDoneChan(st.Chan); isDone && st.Dir == types.RecvOnly {
					if strings.HasSuffix(p, ".ctx") || p == "p:ctx" {
						okc = true
					}
				}
			}
			r.check(okc, rule, key, w.instrPos(op.Instr), "abandonable: Done() case or default", "a blocking select in a query goroutine has no Done() case of the query context: the goroutine can outlive Close/cancellation")
		}
	}
	if n < 6 {
		r.undecided(rule, "region", "-", fmt.Sprintf("only %d channel operations found in the query region: anchors lost", n))
	}
}

func c20R6(w *World, r *Report) {
	const rule = "C20.R6"
	r.rule(rule, "teardown order: fileWorkers.Wait → close(blockJobs) → blockWorkers.Wait → handles.closeAll → markWorkersDone (close(rowChan), close(done))", 5)
	td := queryClosure(w, "Results.markWorkersDone")
	if td == nil {
		r.undecided(rule, "anchor:teardown", "-", "teardown goroutine not found")
		return
	}
	cl := &Classifier{Call: func(site ssa.Instruction, c *ssa.CallCommon) *Event {
		n := w.calleeName(c)
		switch {
		case n == "(*sync.WaitGroup).Wait":
			return ev("wait:" + w.path(c.Args[0]))
		case n == "builtin.close":
			return ev("close:" + w.path(c.Args[0]))
		case n == "fileHandlePool.closeAll":
			return ev("closeAll")
		}
		return nil
	}}
	fl := newFlow(w, td, cl)
	var waits []string
	eachInstr(td, func(in ssa.Instruction) {
		if c := callOf(in); c != nil && w.calleeName(c) == "(*sync.WaitGroup).Wait" {
			waits = append(waits, "wait:"+w.path(c.Args[0]))
		}
	})
	if len(waits) != 2 {
		r.undecided(rule, "teardown:waits", w.pos(td.Pos()), fmt.Sprintf("expected two WaitGroup waits, found %d", len(waits)))
		return
	}
	// which wait is the file workers': the WaitGroup the file stage goroutine's Done refers to
	fileWG, blockWG := waits[0], waits[1]
	eachInstr(td, func(in ssa.Instruction) {
		c := callOf(in)
		if c == nil {
			return
		}
		f := fl.Before(in)
		switch w.calleeName(c) {
		case "builtin.close":
			r.check(f.Must(fileWG) && !f.May(blockWG), rule, "teardown:close(blockJobs)", w.instrPos(in), "after the file workers, before waiting for block workers", "blockJobs is closed before every file worker (its only senders) has exited, or after the block workers were awaited: a send on a closed channel panics, or block workers never see the end of input")
		case "fileHandlePool.closeAll":
			r.check(f.Must(fileWG) && f.Must(blockWG), rule, "teardown:closeAll", w.instrPos(in), "after every reader exited", "the handle pool is closed while workers may still hold or request handles")
		case "Results.markWorkersDone":
			r.check(f.Must(fileWG) && f.Must(blockWG) && f.Must("closeAll") && f.MustPrefix("close:"), rule, "teardown:markWorkersDone", w.instrPos(in), "last step", "the cursor is told the pipeline finished before workers exited / handles were closed: Next reports completion while rows or errors can still arrive")
		}
	})
	// the two WaitGroups are distinct and the first one awaited is the one the file stage adds to
	r.check(fileWG != blockWG, rule, "teardown:distinct-waitgroups", w.pos(td.Pos()), "file and block workers awaited separately", "both waits use the same WaitGroup")
	stage := queryClosure(w, "MetaStore.GetMaybeFilesForQuery")
	if stage != nil {
		okStage := false
		for _, in := range stage.Blocks[0].Instrs {
			if d, ok := in.(*ssa.Defer); ok && w.calleeName(&d.Call) == "(*sync.WaitGroup).Done" && "wait:"+w.path(d.Call.Args[0]) == fileWG {
				okStage = true
			}
		}
		r.check(okStage, rule, "teardown:file-stage-in-first-wait", w.pos(stage.Pos()), "the file stage is awaited first", "the first wait does not cover the file stage: block workers could be spawned after blockWorkers.Wait returned")
	}
	// markWorkersDone closes rowChan and done after freezing duration
	if m := w.fn("Results.markWorkersDone"); m != nil {
		nClose := 0
		eachInstr(m, func(in ssa.Instruction) {
			if c := callOf(in); c != nil && w.calleeName(c) == "builtin.close" {
				nClose++
			}
		})
		r.check(nClose == 2, rule, "markWorkersDone:closes-rowChan-and-done", w.pos(m.Pos()), "closes both", fmt.Sprintf("markWorkersDone closes %d channels (rowChan and done expected)", nClose))
	}
}

// ---------------------------------------------------------------------------

func checkC21(w *World, r *Report, tier string) propMeta {
	c21R1(w, r)
	c21R2(w, r)
	c21R3(w, r)
	c21R4(w, r)
	c21R5(w, r)
	c21R6(w, r)
	c20R3(w, r) // Close and terminate return only after the pipeline (workers, iterator, handles) has exited
	return propMeta{
		explanation: "Resource release as counting, pending/kill and ownership rules: (R1) after every successful handles.acquire exactly one of put/discard happens on every path (through the deferred health-flag closure in evaluateBlockFilters, directly in processDataBlock), and every read handle opened in the package (DataStore.OpenFile, os.Open) is closed on all paths or returned to a caller that is itself checked; (R2) every handles.retain is matched by a release or by a successful hand-off of the job, whose receiver defers the release before anything else; (R3) every goroutine the query starts is preceded by Add(1) on the WaitGroup whose Done it defers first (the teardown goroutine is the named exception: its completion is markWorkersDone); (R4) every worker defers slot.release, held becomes true only on the semaphore-send edge and false only after taking the token back; (R5) the pool's fields are accessed under mu (named exception: closeAll walks the detached map) and no store I/O (OpenFile, Close) runs with mu possibly held.",
		notDecided:  "That a DataStore's Close really releases the handle; exclusivity of a handle between put and the next acquire under all schedules (rests on R5's lock discipline).",
	}
}

func c21R1(w *World, r *Report) {
	const rule = "C21.R1"
	r.rule(rule, "handles: exactly one put/discard after every successful acquire on every path; every opened read handle is closed on all paths or handed to a checked caller", 9)
	for _, s := range w.callSites("fileHandlePool.acquire") {
		fn := s.Fn
		acq := s.Instr.(*ssa.Call)
		base := &Classifier{
			Call: func(site ssa.Instruction, c *ssa.CallCommon) *Event {
				if w.isCallTo(c, "fileHandlePool.put", "fileHandlePool.discard") {
					return ev("returned").count("handback")
				}
				return nil
			},
			CallEdge: func(call ssa.Value, outcome string) *Event {
				if call == ssa.Value(acq) && outcome == "ok" {
					return ev("acquired")
				}
				return nil
			},
		}
		fl := flowWithSummaries(w, fn, base, false)
		n := 0
		for i, ret := range fl.Returns() {
			f := fl.Before(ret)
			if !f.May("acquired") {
				continue
			}
			n++
			c := f.Cnt("handback")
			r.check(c == c1, rule, fmt.Sprintf("%s:return#%d", w.name(fn), i), w.instrPos(ret), "handle given back exactly once", "after a successful acquire the handle is given back "+cntString(c)+" times on paths to this return: a leaked handle stays open until the query ends (or forever), a double hand-back lends one handle to two readers")
		}
		if n == 0 {
			r.undecided(rule, w.name(fn)+":acquire", w.instrPos(acq), "no return reachable after a successful acquire")
		}
	}
	// plain opens
	for _, s := range w.callSites("DataStore.OpenFile", "os.Open") {
		fn := s.Fn
		host := w.name(fn)
		open := s.Instr.(*ssa.Call)
		if host == "fileHandlePool.acquire" || host == "FileSystemDataStore.OpenFile" {
			// returned to the caller
			okc := false
			for _, ret := range newFlow(w, fn, &Classifier{}).Returns() {
				for _, v := range retVals(w, ret, 0) {
					if strings.Contains(w.path(v), w.calleeName(&open.Call)) || v == ssa.Value(open) {
						okc = true
					}
				}
			}
			r.check(okc, rule, host+":open-returned", w.instrPos(open), "handle returned to a checked caller", host+" opens a handle it neither returns nor closes")
			continue
		}
		cl := &Classifier{
			CallEdge: func(call ssa.Value, outcome string) *Event {
				if call == ssa.Value(open) && outcome == "ok" {
					return &Event{May: []string{"open"}}
				}
				return nil
			},
			Call: func(site ssa.Instruction, c *ssa.CallCommon) *Event {
				n := w.calleeName(c)
				if (n == "io.ReadSeekCloser.Close" || n == "(*os.File).Close") && strings.Contains(w.path(closeRecv(c)), w.calleeName(&open.Call)) {
					return (&Event{Must: []string{"closed"}}).kill("open")
				}
				return nil
			},
		}
		fl := newFlow(w, fn, cl)
		bad := ""
		for _, ret := range fl.Returns() {
			if fl.Before(ret).May("open") {
				bad = w.instrPos(ret)
			}
		}
		r.check(bad == "", rule, host+":open-closed", w.instrPos(open), "closed on every path", host+" can return (at "+bad+") with the handle it opened still open")
	}
}

// resolveClosure follows a function value back to the closure it was created
// as: through loads of single-store cells and (nested) free-variable bindings.
func resolveClosure(v ssa.Value, depth int) *ssa.Function {
	if depth > 8 || v == nil {
		return nil
	}
	switch x := v.(type) {
	case *ssa.MakeClosure:
		return x.Fn.(*ssa.Function)
	case *ssa.Function:
		return x
	case *ssa.UnOp:
		return resolveClosure(x.X, depth+1)
	case *ssa.Alloc:
		if sv := singleStoredValue(x); sv != nil {
			return resolveClosure(sv, depth+1)
		}
	case *ssa.FreeVar:
		if b := freeVarBinding(x); b != nil {
			return resolveClosure(b, depth+1)
		}
	}
	return nil
}

func closeRecv(c *ssa.CallCommon) ssa.Value {
	if c.IsInvoke() {
		return c.Value
	}
	if len(c.Args) > 0 {
		return c.Args[0]
	}
	return nil
}

func c21R2(w *World, r *Report) {
	const rule = "C21.R2"
	r.rule(rule, "references: each handles.retain is matched by a release or a successful job hand-off; the job's receiver defers the release first", 3)
	fw := queryClosure(w, "BloomSearchEngine.evaluateBlockFilters")
	if fw == nil {
		r.undecided(rule, "anchor:fileWorker", "-", "file worker closure not found")
		return
	}
	var retains []*ssa.Call
	for _, in := range w.callSitesIn(fw, "fileHandlePool.retain") {
		retains = append(retains, in.(*ssa.Call))
	}
	var sendBlock ssa.Value
	for _, in := range w.callSitesIn(fw, "sendWithContext") {
		sendBlock = in.(ssa.Value)
	}
	if len(retains) != 2 || sendBlock == nil {
		r.undecided(rule, "fileWorker:retains", w.pos(fw.Pos()), fmt.Sprintf("expected 2 retains and a dispatch send, found %d", len(retains)))
		return
	}
	inner, outer := retains[0], retains[1]
	if loopOf(outer.Block()) != nil && innermostHeader(outer.Block()) != innermostHeader(inner.Block()) {
		// the inner retain is the one in the deeper loop
		if len(loopOf(outer.Block())) < len(loopOf(inner.Block())) {
			inner, outer = outer, inner
		}
	}
	// decide inner = the retain dominated by the survivors loop header that also dominates the dispatch send
	if !inner.Block().Dominates(sendBlock.(ssa.Instruction).Block()) || inner.Block() != sendBlock.(ssa.Instruction).Block() {
		inner, outer = outer, inner
	}
	// send-fail successor block
	var failBlock *ssa.BasicBlock
	for _, ref := range *sendBlock.Referrers() {
		if b, ok := ref.(*ssa.BinOp); ok {
			for _, r2 := range *b.Referrers() {
				if ifi, ok := r2.(*ssa.If); ok {
					failBlock = ifi.Block().Succs[0]
				}
			}
		}
	}
	isInnerRelease := func(in ssa.Instruction) bool {
		return failBlock != nil && failBlock.Dominates(in.Block())
	}
	// pass A: inner reference
	clA := &Classifier{
		Call: func(site ssa.Instruction, c *ssa.CallCommon) *Event {
			if site == ssa.Instruction(inner) {
				return &Event{May: []string{"innerRef"}}
			}
			if w.isCallTo(c, "fileHandlePool.release") && isInnerRelease(site) {
				return (&Event{}).kill("innerRef")
			}
			return nil
		},
		CallEdge: func(call ssa.Value, outcome string) *Event {
			if call == sendBlock && outcome == "ok" {
				return (&Event{}).kill("innerRef") // handed off with the job
			}
			return nil
		},
	}
	flA := newFlow(w, fw, clA)
	badA := ""
	eachInstr(fw, func(in ssa.Instruction) {
		switch in.(type) {
		case *ssa.Return, *ssa.Select:
			if f := flA.Before(in); f != nil && f.May("innerRef") {
				badA = w.instrPos(in)
			}
		}
		if in == ssa.Instruction(inner) {
			if f := flA.Before(in); f != nil && f.May("innerRef") {
				badA = w.instrPos(in) + " (next survivor)"
			}
		}
	})
	r.check(badA == "", rule, "fileWorker:job-reference", w.instrPos(inner), "per-job reference handed off with the job or released when the send fails", "the reference retained for a block job can be lost (reaching "+badA+") when the job was not handed off: the file's handles are never closed before the query ends")
	// pass B: outer reference
	clB := &Classifier{Call: func(site ssa.Instruction, c *ssa.CallCommon) *Event {
		if site == ssa.Instruction(outer) {
			return &Event{May: []string{"outerRef"}}
		}
		if w.isCallTo(c, "fileHandlePool.release") && !isInnerRelease(site) {
			return (&Event{}).kill("outerRef")
		}
		return nil
	}}
	flB := newFlow(w, fw, clB)
	badB := ""
	eachInstr(fw, func(in ssa.Instruction) {
		switch in.(type) {
		case *ssa.Return, *ssa.Select:
			if f := flB.Before(in); f != nil && f.May("outerRef") {
				badB = w.instrPos(in)
			}
		}
	})
	r.check(badB == "", rule, "fileWorker:file-reference", w.instrPos(outer), "the filter-pass reference is released on every path", "the reference held across the filter pass and dispatch is not released on the path reaching "+badB)
	// receiver defers release first
	rj := queryClosure(w, "BloomSearchEngine.processDataBlock")
	okc := false
	if rj != nil && len(rj.Blocks) > 0 {
		for _, in := range rj.Blocks[0].Instrs {
			if _, isDbg := in.(*ssa.DebugRef); isDbg {
				continue
			}
			if d, ok := in.(*ssa.Defer); ok && w.isCallTo(&d.Call, "fileHandlePool.release") && strings.HasSuffix(w.path(d.Call.Args[1]), ".filePointer") {
				okc = true
			}
			if _, isCall := in.(*ssa.Call); isCall {
				break
			}
			if _, isIf := in.(*ssa.If); isIf {
				break
			}
		}
	}
	r.check(okc, rule, "runJob:defers-release-first", "-", "the job's reference is released on every exit of the job", "the block job's receiver does not defer handles.release(job.filePointer) before anything that can return: an abandoned or failed job leaks its file reference")
}

func c21R3(w *World, r *Report) {
	const rule = "C21.R3"
	r.rule(rule, "goroutines: each go in the query region follows Add(1) on the WaitGroup whose Done the goroutine defers at entry (exception: the teardown goroutine)", 3)
	q := w.fn("BloomSearchEngine.Query")
	region := queryRegion(w)
	for _, s := range w.goSites() {
		if outermost(s.Fn) != q {
			// a goroutine started anywhere else on the query's call paths is
			// joined by nobody: Next/Close can return while it still runs
			if region[s.Fn] && s.Fn.Pkg != nil && s.Fn.Pkg.Pkg.Path() == modulePath {
				r.bad(rule, "go-outside-Query:"+baseName(w.name(s.Fn)), w.instrPos(s.Instr), baseName(w.name(s.Fn))+" starts a goroutine on the query's call paths that no WaitGroup of the query joins: Next can return false (and Close return) while it is still running, e.g. still inside a handle's Close")
			}
			continue
		}
		g := s.Instr.(*ssa.Go)
		target := w.staticCallee(&g.Call)
		if target == nil {
			target = resolveClosure(g.Call.Value, 0)
		}
		if target == nil {
			r.undecided(rule, "go@"+w.name(s.Fn), w.instrPos(g), "goroutine target not resolved")
			continue
		}
		if len(w.callSitesIn(target, "Results.markWorkersDone")) > 0 {
			r.ok(rule, "go:"+w.name(target)+"[exception]", w.instrPos(g), "named exception: the teardown goroutine's completion is markWorkersDone itself (C20.R6)")
			continue
		}
		// Done deferred first
		doneWG := ""
		for _, in := range target.Blocks[0].Instrs {
			if d, ok := in.(*ssa.Defer); ok && w.calleeName(&d.Call) == "(*sync.WaitGroup).Done" {
				doneWG = w.path(d.Call.Args[0])
				break
			}
			if _, isCall := in.(*ssa.Call); isCall {
				break
			}
		}
		fl := newFlow(w, s.Fn, &Classifier{Call: func(site ssa.Instruction, c *ssa.CallCommon) *Event {
			if w.calleeName(c) == "(*sync.WaitGroup).Add" {
				if n, ok := constInt(c.Args[1]); ok && n == 1 {
					return ev("add:" + w.path(c.Args[0]))
				}
			}
			return nil
		}})
		r.check(doneWG != "" && fl.Before(g).Must("add:"+doneWG), rule, "go:"+w.name(target), w.instrPos(g), "Add(1) before go; Done deferred first", "goroutine "+w.name(target)+" is started without Add(1) on the WaitGroup it signals (or does not defer Done first): teardown can finish while it still runs")
	}
}

func c21R4(w *World, r *Report) {
	const rule = "C21.R4"
	r.rule(rule, "slots: every worker that creates a querySlot defers slot.release; held becomes true only on the semaphore-send edge and false only after the token is taken back", 4)
	for _, fn := range w.Funcs {
		makes := false
		eachInstr(fn, func(in ssa.Instruction) {
			if a, ok := in.(*ssa.Alloc); ok && w.typeName(a.Type()) == "*querySlot" && a.Comment == "slot" {
				makes = true
			}
		})
		if !makes {
			continue
		}
		deferred := false
		eachInstr(fn, func(in ssa.Instruction) {
			if d, ok := in.(*ssa.Defer); ok && w.isCallTo(&d.Call, "querySlot.release") && d.Block() == fn.Blocks[0] {
				deferred = true
			}
		})
		r.check(deferred, rule, w.name(fn)+":defer-slot.release", w.pos(fn.Pos()), "slot released on every exit", w.name(fn)+" creates a query slot without deferring its release at entry: a worker exiting with the slot held shrinks the engine-wide budget for good")
	}
	if fn := fnOrUndecided(w, r, rule, "querySlot.acquire"); fn != nil {
		fl := newFlow(w, fn, &Classifier{SelCase: func(sel *ssa.Select, k int) *Event {
			if dir, key, _ := w.selState(sel, k); dir == "send" && key == "querySlot.sem" {
				return ev("tokenSent")
			}
			return nil
		}})
		for _, fa := range w.fieldAccesses("querySlot") {
			if fa.Fn == fn && fa.Write && fa.Field == "held" {
				b, _ := constBool(fa.Val)
				r.check(b && fl.Before(fa.Instr).Must("tokenSent"), rule, "acquire:held=true-only-after-send", w.instrPos(fa.Instr), "held reflects a token in the semaphore", "held is set without a token having been sent to the semaphore")
			}
		}
		for i, ret := range fl.Returns() {
			if b, isC := constBool(retOperand(ret, 0)); isC && b {
				f := fl.Before(ret)
				_ = f
				r.ok(rule, fmt.Sprintf("acquire:return-true#%d", i), w.instrPos(ret), "true return")
			}
		}
	}
	if fn := fnOrUndecided(w, r, rule, "querySlot.release"); fn != nil {
		fl := newFlow(w, fn, &Classifier{Instr: func(in ssa.Instruction) *Event {
			if u, ok := in.(*ssa.UnOp); ok && u.Op.String() == "<-" && w.chanKey(u.X) == "querySlot.sem" {
				return ev("tokenTaken")
			}
			return nil
		}, Cond: func(c Cond, taken bool) *Event {
			if c.Op == "truth" && taken && w.path(c.X) == "p:s.held" {
				return ev("wasHeld")
			}
			return nil
		}})
		n := 0
		eachInstr(fn, func(in ssa.Instruction) {
			if u, ok := in.(*ssa.UnOp); ok && u.Op.String() == "<-" {
				n++
				r.check(fl.Before(in).Must("wasHeld"), rule, "release:takes-token-only-if-held", w.instrPos(in), "token taken back only when held", "release receives from the semaphore without holding a token: it steals another worker's slot (and can block forever)")
			}
		})
		for _, fa := range w.fieldAccesses("querySlot") {
			if fa.Fn == fn && fa.Write && fa.Field == "held" {
				r.check(fl.Before(fa.Instr).Must("tokenTaken"), rule, "release:held=false-after-token", w.instrPos(fa.Instr), "held cleared after the token was taken back", "held is cleared without the token being taken back: the slot leaks")
			}
		}
		if n == 0 {
			r.bad(rule, "release:takes-token", w.pos(fn.Pos()), "release never takes the token back")
		}
	}
}

func c21R5(w *World, r *Report) {
	const rule = "C21.R5"
	r.rule(rule, "pool discipline: fileHandlePool.{files,closed} and pooledFileHandles.{refs,idle} only under mu; no OpenFile/Close with mu possibly held", 14)
	guardedAccessCheck(w, r, rule, "fileHandlePool", []string{"files", "closed"}, ".mu", nil)
	guardedAccessCheck(w, r, rule, "pooledFileHandles", []string{"refs", "idle"}, ".mu", map[string]string{
		"pooledFileHandles.idle@fileHandlePool.closeAll(read)": "closeAll detaches the whole map under mu and sets closed; it runs after every worker exited (C20.R6), so no other goroutine can reach these entries",
	})
	for _, fn := range w.Funcs {
		if !strings.HasPrefix(w.name(fn), "fileHandlePool.") {
			continue
		}
		fl := newFlow(w, fn, lockClassifier(w, nil, nil))
		eachInstr(fn, func(in ssa.Instruction) {
			c := callOf(in)
			if c == nil {
				return
			}
			n := w.calleeName(c)
			if n == "DataStore.OpenFile" || n == "io.ReadSeekCloser.Close" || n == "closeHandles" {
				f := fl.Before(in)
				r.check(!f.MayPrefix("held:"), rule, w.name(fn)+":io-outside-lock:"+n, w.instrPos(in), "store I/O with the pool unlocked", n+" can run while the pool's mutex is held: one slow open/close stalls every reader of the query")
			}
		})
	}
}

// ---------------------------------------------------------------------------

func slotClassifier(w *World) *Classifier {
	return &Classifier{
		CallEdge: func(call ssa.Value, outcome string) *Event {
			if c, ok := call.(*ssa.Call); ok && w.isCallTo(&c.Call, "querySlot.acquire") {
				if outcome == "true" {
					return ev("slot").kill("released")
				}
			}
			return nil
		},
		Call: func(site ssa.Instruction, c *ssa.CallCommon) *Event {
			if _, isCall := site.(*ssa.Call); isCall && w.isCallTo(c, "querySlot.release") {
				return ev("released").kill("slot")
			}
			// callees that may toggle the slot (deliver releases and re-acquires)
			if w.isCallTo(c, "rowBatcher.add", "rowBatcher.flush", "Results.deliver") {
				return &Event{May: []string{"maybeToggled"}}
			}
			return nil
		},
	}
}

func checkC22(w *World, r *Report, tier string) propMeta {
	const r1, r2, r3 = "C22.R1", "C22.R2", "C22.R3"
	r.rule(r1, "slot held at I/O: every site in the query region that can read a DataStore handle (handles.acquire, filtersFor, readPooledBlockRowData) has the query slot in its must-held set; processDataBlock's precondition is established by its caller", 5)
	r.rule(r2, "slot not held while waiting on others: released before the blocking rowChan send in deliver and before the dispatch sends of the file worker", 2)
	r.rule(r3, "budget: querySemaphore's capacity is the validated config.MaxQueryConcurrency; only querySlot.acquire sends on it and only querySlot.release receives; slots are built on the engine's semaphore", 5)
	// R1
	if fn := fnOrUndecided(w, r, r1, "BloomSearchEngine.evaluateBlockFilters"); fn != nil {
		fl := newFlow(w, fn, slotClassifier(w))
		for _, in := range w.callSitesIn(fn, "fileHandlePool.acquire", "blockFilterCursor.filtersFor") {
			f := fl.Before(in)
			r.check(f.Must("slot"), r1, "evaluateBlockFilters:"+w.calleeName(callOf(in)), w.instrPos(in), "I/O under a held slot", "filter I/O ("+w.calleeName(callOf(in))+") can run without a query-semaphore slot: concurrent DataStore reads exceed MaxQueryConcurrency")
		}
	}
	if fn := fnOrUndecided(w, r, r1, "BloomSearchEngine.processDataBlock"); fn != nil {
		fl := newFlow(w, fn, slotClassifier(w))
		for _, in := range w.callSitesIn(fn, "fileHandlePool.acquire", "readPooledBlockRowData") {
			f := fl.Before(in)
			r.check(!f.May("released") && !f.May("maybeToggled"), r1, "processDataBlock:"+w.calleeName(callOf(in)), w.instrPos(in), "I/O before anything that can release the slot", "row-data I/O can run after the slot was (possibly) released by a delivery")
		}
		if rj := queryClosure(w, "BloomSearchEngine.processDataBlock"); rj != nil {
			rfl := newFlow(w, rj, slotClassifier(w))
			for _, in := range w.callSitesIn(rj, "BloomSearchEngine.processDataBlock") {
				r.check(rfl.Before(in).Must("slot"), r1, "runJob:slot-held-at-processDataBlock", w.instrPos(in), "the scan starts with the slot held", "a block scan can start without a query-semaphore slot")
			}
		}
	}
	// R2
	if fn := fnOrUndecided(w, r, r2, "Results.deliver"); fn != nil {
		fl := newFlow(w, fn, slotClassifier(w))
		n := 0
		eachInstr(fn, func(in ssa.Instruction) {
			if sel, ok := in.(*ssa.Select); ok && sel.Blocking {
				for k := range sel.States {
					if dir, key, _ := w.selState(sel, k); dir == "send" && key == "Results.rowChan" {
						n++
						r.check(fl.Before(in).Must("released"), r2, "deliver:blocking-send-without-slot", w.instrPos(in), "slot released before blocking on the consumer", "deliver blocks on a full row channel while holding a query-semaphore slot: one stalled consumer starves every other query")
					}
				}
			}
		})
		if n == 0 {
			r.undecided(r2, "deliver:blocking-send", w.pos(fn.Pos()), "blocking rowChan send not found")
		}
		// and nowhere else: any other function that can block sending on the
		// row channel must also have released the slot first
		for _, op := range w.chanOps() {
			if op.Key != "Results.rowChan" || op.Fn == fn {
				continue
			}
			blocking := false
			switch x := op.Instr.(type) {
			case *ssa.Send:
				blocking = true
			case *ssa.Select:
				if op.Kind == "selsend" && x.Blocking {
					blocking = true
				}
			}
			if !blocking || (op.Kind != "send" && op.Kind != "selsend") {
				continue
			}
			ofl := newFlow(w, op.Fn, slotClassifier(w))
			f := ofl.Before(op.Instr)
			r.check(f != nil && f.Must("released"), r2, "blocking-send-without-slot@"+baseName(w.name(op.Fn)), w.instrPos(op.Instr), "slot released before blocking on the consumer", baseName(w.name(op.Fn))+" can block on a full row channel while the worker still holds its query-semaphore slot: a stalled consumer parks the slots and every other query starves")
		}
		// nil return only with the slot re-acquired (or never released)
		for i, ret := range fl.Returns() {
			if allNil(retVals(w, ret, 0)) {
				f := fl.Before(ret)
				r.check(!f.May("released") || f.Must("slot"), r2, fmt.Sprintf("deliver:return-nil#%d", i), w.instrPos(ret), "scan resumes only with the slot held again", "deliver can report success with the slot released: the scan continues (and reads) outside the budget")
			}
		}
	}
	if fw := queryClosure(w, "BloomSearchEngine.evaluateBlockFilters"); fw != nil {
		cl := slotClassifier(w)
		inner := cl.Call
		cl.Call = func(site ssa.Instruction, c *ssa.CallCommon) *Event {
			if w.isCallTo(c, "BloomSearchEngine.evaluateBlockFilters") {
				return (&Event{May: []string{"slot"}}).kill("released")
			}
			return inner(site, c)
		}
		fl := newFlow(w, fw, cl)
		for _, in := range w.callSitesIn(fw, "sendWithContext") {
			r.check(fl.Before(in).Must("released"), r2, "fileWorker:dispatch-without-slot", w.instrPos(in), "slot released before dispatching", "the file worker dispatches block jobs (a send that can block on the block workers) while holding its slot: at a small MaxQueryConcurrency the block workers can never acquire one")
		}
	}
	// R3
	if nf := fnOrUndecided(w, r, r3, "NewBloomSearchEngine"); nf != nil {
		cl := &Classifier{Cond: func(c Cond, taken bool) *Event {
			if w.path(c.X) == "p:config.MaxQueryConcurrency" && isZero(c.Y) && ((c.Op == "<=" && !taken) || (c.Op == ">" && taken)) {
				return ev("positive")
			}
			return nil
		}}
		fl := newFlow(w, nf, cl)
		found := false
		for _, fa := range w.fieldAccesses("BloomSearchEngine") {
			if fa.Fn == nf && fa.Write && fa.Field == "querySemaphore" {
				if mc, ok := fa.Val.(*ssa.MakeChan); ok {
					found = true
					lv := w.leaves(mc.Size)
					r.check(len(lv) == 1 && lv["p:config.MaxQueryConcurrency"] && fl.Before(mc).Must("positive"), r3, "make(querySemaphore)", w.instrPos(mc), "capacity = validated MaxQueryConcurrency", "the query semaphore's capacity is "+strings.Join(sortedKeys(lv), ",")+": the I/O budget is not the configured one")
				}
			}
		}
		if !found {
			r.undecided(r3, "make(querySemaphore)", w.pos(nf.Pos()), "semaphore construction not found")
		}
	}
	for _, op := range w.chanOps() {
		if op.Key != "querySlot.sem" && op.Key != "BloomSearchEngine.querySemaphore" {
			continue
		}
		host := w.name(op.Fn)
		switch op.Kind {
		case "send", "selsend":
			r.check(host == "querySlot.acquire", r3, "sem:sender:"+host, w.instrPos(op.Instr), "only acquire takes a slot", "a slot is taken in "+host+", outside querySlot.acquire")
		case "recv", "selrecv":
			r.check(host == "querySlot.release", r3, "sem:receiver:"+host, w.instrPos(op.Instr), "only release frees a slot", "a slot is freed in "+host+", outside querySlot.release")
		case "close":
			r.bad(r3, "sem:close:"+host, w.instrPos(op.Instr), "the semaphore is closed")
		}
	}
	for _, fa := range w.fieldAccesses("querySlot") {
		if fa.Write && fa.Field == "sem" {
			r.check(w.path(fa.Val) == "p:b.querySemaphore", r3, "slot.sem@"+w.name(fa.Fn), w.instrPos(fa.Instr), "slot built on the engine's semaphore", "a query slot is built on "+w.path(fa.Val)+" instead of the engine-wide semaphore: its I/O is not counted against MaxQueryConcurrency")
		}
	}
	return propMeta{
		explanation: "The concurrency budget as typestate and ownership rules: (R1) at every site of the query region that can read a DataStore handle the worker's slot is in the must-held set (filter pass: after slot.acquire's true edge; block scan: established by runJob, and all row-data I/O precedes anything that can toggle the slot); (R2) the slot is released before the blocking row-channel send in deliver, success is reported only with the slot held again, and the file worker releases its slot before dispatching block jobs; (R3) the semaphore's capacity is the validated config.MaxQueryConcurrency, only querySlot.acquire sends on it and only querySlot.release receives, and every slot is built on the engine's semaphore.",
		notDecided:  "MetaStore-side reads (the filesystem scan reads footers outside the DataStore interface); the count of in-progress reads under real schedules.",
	}
}

// ---------------------------------------------------------------------------

func checkC23(w *World, r *Report, tier string) propMeta {
	const r1, r2, r3 = "C23.R1", "C23.R2", "C23.R3"
	r.rule(r1, "one stats entry per scan job: processDataBlock registers its recordBlockStats defer unconditionally at entry and records nowhere else", 2)
	r.rule(r2, "filter pass accounts for each block exactly once per iteration (survivor, skipped entry, or unread entry) and every early exit is a cancellation or records all remaining blocks", 12)
	r.rule(r3, "skipped/unread entries leave RowsProcessed/BytesProcessed zero; scan counters advance once per scanned row; Stats counts each entry as skipped xor processed and sums rows/bytes over all entries", 6)
	c20R8(w, r, "C23.R4")
	c02R3(w, r) // RowsMatched advances by len(batch) exactly once per delivered batch
	if fn := fnOrUndecided(w, r, r1, "BloomSearchEngine.processDataBlock"); fn != nil {
		deferred := false
		var cb *ssa.Function
		for _, in := range fn.Blocks[0].Instrs {
			if d, ok := in.(*ssa.Defer); ok {
				if callee := w.staticCallee(&d.Call); callee != nil && len(w.callSitesIn(callee, "Results.recordBlockStats")) == 1 {
					deferred = true
					cb = callee
				}
			}
			if _, isIf := in.(*ssa.If); isIf {
				break
			}
		}
		if cb != nil {
			cfl := newFlow(w, cb, &Classifier{Call: func(site ssa.Instruction, c *ssa.CallCommon) *Event {
				if w.isCallTo(c, "Results.recordBlockStats") {
					return ev("recorded")
				}
				return nil
			}})
			for i, ret := range cfl.Returns() {
				r.check(cfl.Before(ret).Must("recorded"), r1, fmt.Sprintf("processDataBlock:stats-defer-records#%d", i), w.instrPos(ret), "the deferred record is unconditional", "the deferred stats record of a scan can return without recording (skipped on cancellation or some other condition): a block that already delivered rows is missing from Stats")
			}
		}
		r.check(deferred, r1, "processDataBlock:stats-defer-at-entry", w.pos(fn.Pos()), "stats recorded on every exit", "processDataBlock does not unconditionally defer its stats record at entry: failed or cancelled scans drop out of the statistics")
		direct := len(w.callSitesIn(fn, "Results.recordBlockStats"))
		r.check(direct == 0, r1, "processDataBlock:no-second-record", w.pos(fn.Pos()), "no direct record besides the defer", fmt.Sprintf("processDataBlock records stats directly %d time(s) in addition to its defer: a block is listed twice", direct))
		if cb != nil {
			lit := literalOf(w, cb, "BlockStats")
			okc := lit != nil && strings.HasSuffix(w.path(lit["RowsProcessed"]), "rowsScanned") && strings.HasSuffix(w.path(lit["BytesProcessed"]), "bytesScanned") && strings.HasSuffix(w.path(lit["TotalRows"]), ".blockMetadata.Rows")
			_, skippedSet := lit["BloomFilterSkipped"]
			r.check(okc && !skippedSet, r3, "processDataBlock:stats-literal", w.pos(cb.Pos()), "scan counters and metadata totals", "the scan's stats entry does not report (rowsScanned, bytesScanned, metadata totals) or marks a scanned block as skipped")
		}
		// counters advance once per scanned row
		nexts := w.callSitesIn(fn, "BlockRowScanner.Next")
		if len(nexts) == 1 {
			cl := &Classifier{Instr: func(in ssa.Instruction) *Event {
				if st, ok := in.(*ssa.Store); ok {
					p := w.path(st.Addr)
					if strings.HasSuffix(p, "rowsScanned") || strings.HasSuffix(p, "bytesScanned") {
						if b, ok := st.Val.(*ssa.BinOp); ok && b.Op.String() == "+" {
							return (&Event{}).count(p[strings.LastIndex(p, ":")+1:])
						}
					}
				}
				return nil
			}, CallEdge: func(call ssa.Value, outcome string) *Event {
				if call == nexts[0].(ssa.Value) && outcome == "true" {
					return &Event{Reset: []string{"rowsScanned", "bytesScanned"}}
				}
				return nil
			}}
			fl := newFlow(w, fn, cl)
			okc := true
			backs := loopBackEdgeFacts(fl, nexts[0])
			for _, f := range backs {
				if f.Cnt("rowsScanned") != c1 || f.Cnt("bytesScanned") != c1 {
					okc = false
				}
			}
			r.check(okc && len(backs) > 0, r3, "processDataBlock:counters-once-per-row", w.instrPos(nexts[0]), "rowsScanned and bytesScanned advance once per scanned row", "the scan counters do not advance exactly once per scanned row (matched and unmatched alike)")
		}
	}
	if fn := fnOrUndecided(w, r, r2, "BloomSearchEngine.evaluateBlockFilters"); fn != nil {
		// the loops' own index values: X of `X < len(blocks)`
		iterIdx := map[ssa.Value]bool{}
		for _, b := range fn.Blocks {
			if iff, ok := b.Instrs[len(b.Instrs)-1].(*ssa.If); ok {
				if cmp, ok := iff.Cond.(*ssa.BinOp); ok && cmp.Op == token.LSS && isLenOf(w, cmp.Y, "p:blocks") {
					iterIdx[cmp.X] = true
				}
			}
		}
		acct := func(must ...string) *Event {
			e := &Event{Must: must, May: []string{"acctAny"}}
			return e.count("acct")
		}
		var wholeSites, oddSites []ssa.Instruction
		cl := &Classifier{
			Call: func(site ssa.Instruction, c *ssa.CallCommon) *Event {
				switch {
				case w.isCallTo(c, "Results.recordBlockStats"):
					return acct()
				case w.isCallTo(c, "recordUnreadBlocks"):
					arg := c.Args[2]
					if sl, ok := arg.(*ssa.Slice); ok && w.path(sl.X) == "p:blocks" {
						if sl.Low == nil || !iterIdx[sl.Low] {
							oddSites = append(oddSites, site)
							return nil
						}
						if sl.High == nil {
							return acct("restRecorded") // blocks[i:] — this block and every later one
						}
						if hb, ok := sl.High.(*ssa.BinOp); ok && hb.Op == token.ADD && hb.X == sl.Low {
							if one, isC := constInt(hb.Y); isC && one == 1 {
								return acct() // blocks[i:i+1]
							}
						}
						oddSites = append(oddSites, site)
						return nil
					}
					if w.path(arg) == "p:blocks" {
						wholeSites = append(wholeSites, site)
						return ev("restRecorded")
					}
					oddSites = append(oddSites, site)
				case w.calleeName(c) == "builtin.append":
					if call, ok := site.(*ssa.Call); ok {
						if _, elems, ok := appendedElems(call); ok && len(elems) == 1 && w.typeName(elems[0].Type()) == "blockScanCandidate" {
							return acct()
						}
					}
				}
				return nil
			},
			CallEdge: func(call ssa.Value, outcome string) *Event {
				c, ok := call.(*ssa.Call)
				if !ok {
					return nil
				}
				if w.calleeName(&c.Call) == "context.Context.Err" && outcome == "fail" {
					return ev("cancelled")
				}
				if w.isCallTo(&c.Call, "querySlot.acquire") && outcome == "false" {
					return ev("cancelled")
				}
				return nil
			},
			Cond: func(c Cond, taken bool) *Event {
				// entering an iteration of a loop over blocks
				if c.Op == "<" && taken && c.Y != nil && isLenOf(w, c.Y, "p:blocks") {
					return &Event{Reset: []string{"acct"}}
				}
				return nil
			},
		}
		fl := newFlow(w, fn, cl)
		nb := 0
		for _, be := range backEdges(fn) {
			b := fn.Blocks[be[0]]
			f := fl.EdgeFacts(b, be[1])
			if f == nil {
				continue
			}
			nb++
			c := f.Cnt("acct")
			r.check(c == c1, r2, fmt.Sprintf("evaluateBlockFilters:iteration(b%d)", b.Index), w.instrPos(b.Instrs[len(b.Instrs)-1]), "block accounted for exactly once", "a block can reach the next iteration accounted for "+cntString(c)+" times (survivor / skipped entry / unread entry): Stats lists it twice or not at all")
		}
		seenSite := map[ssa.Instruction]bool{}
		for _, site := range wholeSites {
			if seenSite[site] {
				continue
			}
			seenSite[site] = true
			f := fl.Before(site)
			r.check(f != nil && !f.May("acctAny"), r2, "evaluateBlockFilters:whole-file-unread-only-before-any-accounting", w.instrPos(site), "no block accounted for yet", "every block of the file is recorded as unread at a point where some blocks may already have been accounted for (as survivors, skipped or unread): those blocks are listed twice")
		}
		for _, site := range oddSites {
			if seenSite[site] {
				continue
			}
			seenSite[site] = true
			r.bad(r2, "evaluateBlockFilters:unread-range", w.instrPos(site), "recordUnreadBlocks is given a range of blocks that is neither the whole file, blocks[i:] nor blocks[i:i+1] for the loop's own index i: blocks are listed twice or not at all")
		}
		if nb < 3 {
			r.undecided(r2, "evaluateBlockFilters:loops", w.pos(fn.Pos()), fmt.Sprintf("expected three loops over the blocks, found %d back edges", nb))
		}
		for i, ret := range fl.Returns() {
			f := fl.Before(ret)
			inLoop := loopOf(ret.Block()) != nil || dominatedByLoopBody(ret.Block())
			if !inLoop && !f.May("cancelled") && !f.May("restRecorded") {
				// a return after a loop ran to exhaustion: per-iteration rule covers it; or an exit before the loops
				r.ok(r2, fmt.Sprintf("evaluateBlockFilters:return#%d(after-loop)", i), w.instrPos(ret), "all blocks accounted per iteration")
				continue
			}
			r.check(f.Must("cancelled") || f.Must("restRecorded"), r2, fmt.Sprintf("evaluateBlockFilters:return#%d(early)", i), w.instrPos(ret), "cancellation, or every remaining block recorded", "the filter pass can return early without recording the blocks it did not evaluate (and the query was not cancelled): Stats lists some but not all of the file's blocks")
		}
		// skipped literal
		for _, in := range w.callSitesIn(fn, "Results.recordBlockStats") {
			c := callOf(in)
			if ld, ok := c.Args[1].(*ssa.UnOp); ok {
				if a, ok := ld.X.(*ssa.Alloc); ok {
					fields := map[string]bool{}
					for _, ref := range *a.Referrers() {
						if fa, ok := ref.(*ssa.FieldAddr); ok {
							fields[fieldName(a.Type(), fa.Field)] = true
						}
					}
					r.check(fields["BloomFilterSkipped"] && !fields["RowsProcessed"] && !fields["BytesProcessed"], r3, "evaluateBlockFilters:skipped-literal", w.instrPos(in), "skipped entry reports zero rows/bytes processed", "a pruned block's entry sets RowsProcessed/BytesProcessed or is not marked skipped")
				}
			}
		}
	}
	if fn := fnOrUndecided(w, r, r3, "recordUnreadBlocks"); fn != nil {
		lit := literalOf(w, fn, "BlockStats")
		_, rp := lit["RowsProcessed"]
		_, bp := lit["BytesProcessed"]
		_, sk := lit["BloomFilterSkipped"]
		r.check(lit != nil && !rp && !bp && !sk, r3, "recordUnreadBlocks:literal", w.pos(fn.Pos()), "unread entry: totals only", "an unread block's entry reports processed rows/bytes or is marked skipped")
		n := len(w.callSitesIn(fn, "Results.recordBlockStats"))
		okLoop := false
		for _, in := range w.callSitesIn(fn, "Results.recordBlockStats") {
			fl := newFlow(w, fn, &Classifier{Call: func(site ssa.Instruction, c *ssa.CallCommon) *Event {
				if site == in {
					return ev("rec")
				}
				return nil
			}})
			backs := loopBackEdgeFacts(fl, in)
			okLoop = len(backs) > 0
			for _, f := range backs {
				if !f.Must("rec") {
					okLoop = false
				}
			}
		}
		r.check(n == 1 && okLoop, r3, "recordUnreadBlocks:one-entry-per-block", w.pos(fn.Pos()), "one entry for each block given", "recordUnreadBlocks does not record exactly one entry per block it is given")
	}
	if fn := fnOrUndecided(w, r, r3, "Results.Stats"); fn != nil {
		cl := &Classifier{Cond: func(c Cond, taken bool) *Event {
			if c.Op == "truth" && strings.HasSuffix(w.path(c.X), ".BloomFilterSkipped") {
				if taken {
					return ev("isSkipped")
				}
				return ev("notSkipped")
			}
			return nil
		}}
		fl := newFlow(w, fn, cl)
		okSk, okPr, sums := false, false, 0
		eachInstr(fn, func(in ssa.Instruction) {
			st, ok := in.(*ssa.Store)
			if !ok {
				return
			}
			p := w.path(st.Addr)
			f := fl.Before(in)
			b, isAdd := st.Val.(*ssa.BinOp)
			if !isAdd || b.Op.String() != "+" {
				return
			}
			switch {
			case strings.HasSuffix(p, ".BlocksSkipped"):
				okSk = f.Must("isSkipped")
			case strings.HasSuffix(p, ".BlocksProcessed"):
				okPr = f.Must("notSkipped")
			case strings.HasSuffix(p, ".RowsScanned") && strings.HasSuffix(w.path(b.Y), ".RowsProcessed"):
				sums++
			case strings.HasSuffix(p, ".BytesScanned") && strings.HasSuffix(w.path(b.Y), ".BytesProcessed"):
				sums++
			}
		})
		r.check(okSk && okPr && sums == 2, r3, "Stats:aggregation", w.pos(fn.Pos()), "skipped xor processed; totals are per-block sums", fmt.Sprintf("Stats aggregation is off (skipped-on-flag=%v processed-on-not-flag=%v per-block sums=%d/2)", okSk, okPr, sums))
		okRM := false
		if lit := literalOf(w, fn, "QueryStats"); lit != nil {
			if c, ok := lit["RowsMatched"].(*ssa.Call); ok && w.calleeName(&c.Call) == "(*sync/atomic.Int64).Load" && strings.HasSuffix(w.path(c.Call.Args[0]), ".rowsMatched") {
				okRM = true
			}
		}
		r.check(okRM, r3, "Stats:RowsMatched", w.pos(fn.Pos()), "RowsMatched is the delivery counter", "Stats.RowsMatched does not come from the counter deliver advances per send (C02.R3)")
	}
	return propMeta{
		explanation: "Exactly-once statistics as placement and counting rules: (R1) processDataBlock registers one deferred stats record at entry and records nowhere else; (R2) in evaluateBlockFilters every loop iteration over the blocks accounts for its block exactly once (counter reset on entering the iteration: survivor append, skipped entry, or single-block unread entry), and every early exit is a cancellation or records all remaining blocks (blocks[i:] / blocks); (R3) skipped and unread entries carry no processed rows/bytes, the scan's counters advance once per scanned row and feed the scan's entry, recordUnreadBlocks records one entry per block given, and Stats counts each entry as skipped xor processed, sums rows/bytes over all entries and reports the delivery counter as RowsMatched.",
		notDecided:  "Numeric equality of totals on real data; Duration values.",
	}
}

func dominatedByLoopBody(b *ssa.BasicBlock) bool {
	// a block whose immediate dominator chain passes through a loop body block
	// (i.e. an early return taken from inside a loop)
	for d := b.Idom(); d != nil; d = d.Idom() {
		if loopOf(d) != nil {
			// inside the loop's body if the loop header does not "exit" to b through its own test
			hdr := innermostHeader(d)
			if hdr != nil && hdr != d {
				return true
			}
			if hdr == d {
				// reached from the header: exhaustion exit
				return false
			}
		}
	}
	return false
}

// ---------------------------------------------------------------------------

func checkC24(w *World, r *Report, tier string) propMeta {
	const r1, r2, r3, r4 = "C24.R1", "C24.R2", "C24.R3", "C24.R4"
	r.rule(r1, "no dispatch of disqualified files: the file-job send is unreachable from the false edge of the file-level test and from an empty prefilter result", 1)
	r.rule(r2, "no filter I/O without conditions, no scan of disqualified blocks: acquire/filtersFor follow the has-conditions and has-sections checks; a block read after its filters becomes a survivor only on the survived edge", 3)
	r.rule(r3, "row data is read only by processDataBlock, fed only from blockJobs, which only the survivor loop sends to", 3)
	r.rule(r4, "read extents come from the block's own metadata: row data at (RowDataOffset, RowDataSize), filter chunks from validated section bounds", 3)
	q := w.fn("BloomSearchEngine.Query")
	var body *ssa.Function
	for _, fn := range w.Funcs {
		if q != nil && outermost(fn) == q && strings.HasPrefix(fn.Synthetic, "range-over-func") {
			body = fn
		}
	}
	if body == nil {
		r.undecided(r1, "anchor:file-stage", "-", "file stage body not found")
	} else {
		cl := &Classifier{
			CallEdge: func(call ssa.Value, outcome string) *Event {
				if c, ok := call.(*ssa.Call); ok && w.isCallTo(&c.Call, "BloomSearchEngine.evaluateBloomFilters") && outcome == "false" {
					return &Event{May: []string{"negativeFile"}}
				}
				return nil
			},
			Cond: func(c Cond, taken bool) *Event {
				if c.Y != nil && isZero(c.Y) && ((c.Op == "==" && taken) || (c.Op == "!=" && !taken)) {
					if call, ok := c.X.(*ssa.Call); ok {
						if b, ok := call.Call.Value.(*ssa.Builtin); ok && b.Name() == "len" && strings.HasSuffix(w.path(call.Call.Args[0]), ".Metadata.DataBlocks") {
							return &Event{May: []string{"noBlocks"}}
						}
					}
				}
				return nil
			},
		}
		fl := newFlow(w, body, cl)
		n := 0
		for _, in := range w.callSitesIn(body, "sendWithContext") {
			n++
			f := fl.Before(in)
			r.check(!f.May("negativeFile") && !f.May("noBlocks"), r1, "file-stage:dispatch", w.instrPos(in), "only files that passed the file-level test with blocks left", "a file whose file-level filters ruled out the query (or that has no block left after the prefilter) is still dispatched: it is opened and its block filters read for nothing")
			// the file-level test exists and gates on hasBloomConditions
		}
		nTest := len(w.callSitesIn(body, "BloomSearchEngine.evaluateBloomFilters"))
		r.check(n == 1 && nTest == 1, r1, "file-stage:file-level-test-present", w.pos(body.Pos()), "file-level bloom test before dispatch", fmt.Sprintf("the file stage has %d dispatch sends and %d file-level tests", n, nTest))
	}
	if fn := fnOrUndecided(w, r, r2, "BloomSearchEngine.evaluateBlockFilters"); fn != nil {
		cl := &Classifier{
			Cond: func(c Cond, taken bool) *Event {
				if isNilConst(c.Y) && ((c.Op == "==" && !taken) || (c.Op == "!=" && taken)) {
					p := w.path(c.X)
					if p == "p:pruneBloomQuery" {
						return ev("queryNonNil")
					}
					if p == "p:pruneBloomQuery.Expression" {
						return ev("hasConditions")
					}
				}
				if isNilConst(c.Y) && ((c.Op == "==" && taken) || (c.Op == "!=" && !taken)) {
					if p := w.path(c.X); p == "p:pruneBloomQuery" || p == "p:pruneBloomQuery.Expression" {
						return ev("nothingToTest") // no bloom query / no expression at all
					}
				}
				if c.Op == "truth" && taken && strings.HasPrefix(w.path(c.X), "call:planBlockFilterReads@") {
					return ev("hasSections")
				}
				if c.Op == "truth" && !taken && strings.HasPrefix(w.path(c.X), "call:planBlockFilterReads@") {
					return ev("nothingToTest") // no block carries a filter section
				}
				return nil
			},
			CallEdge: func(call ssa.Value, outcome string) *Event {
				if c, ok := call.(*ssa.Call); ok && w.isCallTo(&c.Call, "BloomSearchEngine.evaluateBloomFilters") {
					if outcome == "true" {
						return ev("survived")
					}
					return &Event{May: []string{"pruned"}}
				}
				if c, ok := call.(*ssa.Call); ok && w.isCallTo(&c.Call, "blockFilterCursor.filtersFor") && outcome == "ok" {
					return (&Event{Must: []string{"filtersRead"}}).kill("survived", "pruned")
				}
				return nil
			},
		}
		fl := newFlow(w, fn, cl)
		for _, in := range w.callSitesIn(fn, "fileHandlePool.acquire", "blockFilterCursor.filtersFor") {
			f := fl.Before(in)
			r.check(f.Must("queryNonNil") && f.Must("hasConditions") && f.Must("hasSections"), r2, "evaluateBlockFilters:"+w.calleeName(callOf(in))+"-needs-conditions", w.instrPos(in), "filter I/O only with bloom conditions and sections to read", "the block filter region can be opened/read for a query without bloom conditions (or for a file without filter sections)")
		}
		n := 0
		eachInstr(fn, func(in ssa.Instruction) {
			c, ok := in.(*ssa.Call)
			if !ok {
				return
			}
			if _, elems, ok := appendedElems(c); ok && len(elems) == 1 && w.typeName(elems[0].Type()) == "blockScanCandidate" {
				f := fl.Before(in)
				if !f.May("filtersRead") {
					// a block queued for scanning without its filters having been
					// consulted: only when there is no expression at all, or no
					// section to read — an expression that merely has no leaf
					// (an empty Or is false) must still be evaluated
					r.check(f.Must("nothingToTest"), r2, "evaluateBlockFilters:unfiltered-survivor-only-without-expression", w.instrPos(in), "filters skipped only with no expression or no section", "blocks are queued for scanning without consulting their filters on a path where the prune query has an expression and the file has sections: whatever the filters rule out is read anyway")
				}
				if f.May("filtersRead") {
					n++
					r.check(f.Must("survived") && !f.May("pruned"), r2, "evaluateBlockFilters:survivor-only-if-survived", w.instrPos(in), "scanned only if its filters did not rule it out", "a block whose filters were read is queued for scanning without having survived them: pruning is ineffective")
				}
			}
		})
		if n == 0 {
			r.undecided(r2, "evaluateBlockFilters:survivor", w.pos(fn.Pos()), "survivor append after a filter read not found")
		}
	}
	// R3
	blockJobsKey := ""
	for _, op := range w.chanOps() {
		if q != nil && outermost(op.Fn) == q && (op.Kind == "selrecv" || op.Kind == "recv") && strings.HasPrefix(op.Key, "makechan@") {
			// the receive in the closure that runs processDataBlock's caller
			if bw := op.Fn; len(bw.AnonFuncs) > 0 {
				for _, a := range bw.AnonFuncs {
					if len(w.callSitesIn(a, "BloomSearchEngine.processDataBlock")) > 0 {
						blockJobsKey = op.Key
					}
				}
			}
		}
	}
	if blockJobsKey == "" {
		r.undecided(r3, "anchor:blockJobs", "-", "block job channel not identified")
	} else {
		fw := queryClosure(w, "BloomSearchEngine.evaluateBlockFilters")
		for _, s := range w.callSites("sendWithContext") {
			c := callOf(s.Instr)
			if w.path(c.Args[1]) == blockJobsKey {
				r.check(s.Fn == fw && loopOf(s.Instr.Block()) != nil, r3, "blockJobs:sender:"+w.name(s.Fn), w.instrPos(s.Instr), "only the survivor loop dispatches block jobs", "block jobs are sent from "+w.name(s.Fn)+", outside the survivor loop: blocks can be scanned without having passed their filters")
			}
		}
	}
	plainCallersOnly(w, r, r3, "BloomSearchEngine.processDataBlock", "BloomSearchEngine.Query")
	cs := callerSet(w, "readPooledBlockRowData")
	r.check(len(cs) == 1 && cs["BloomSearchEngine.processDataBlock"], r3, "callers(readPooledBlockRowData)", "-", "row data read only by the block scan", "row data is read from "+strings.Join(sortedKeys(cs), ","))
	// R4
	if fn := fnOrUndecided(w, r, r4, "readPooledBlockRowData"); fn != nil {
		okc := false
		for _, in := range w.callSitesIn(fn, "readFullAt") {
			c := callOf(in)
			buf := c.Args[1]
			if gc, ok := buf.(*ssa.UnOp); ok {
				if a, ok := gc.X.(*ssa.Alloc); ok {
					if sv := singleStoredValue(a); sv != nil {
						buf = sv
					}
				}
			}
			sized := false
			if bc, ok := buf.(*ssa.Call); ok && w.isCallTo(&bc.Call, "getScanBuffer") && w.path(bc.Call.Args[0]) == "p:block.RowDataSize" {
				sized = true
			}
			okc = sized && w.path(c.Args[2]) == "p:block.RowDataOffset"
		}
		r.check(okc, r4, "readPooledBlockRowData:extent", w.pos(fn.Pos()), "reads RowDataSize bytes at RowDataOffset", "the scan reads an extent other than the block's declared (RowDataOffset, RowDataSize)")
	}
	if fn := fnOrUndecided(w, r, r4, "blockFilterCursor.readChunkFrom"); fn != nil {
		okc := false
		for _, in := range w.callSitesIn(fn, "readFullAt") {
			c := callOf(in)
			startLeaves := w.leaves(c.Args[2])
			for l := range startLeaves {
				if strings.HasSuffix(l, ".BloomFilterOffset") {
					okc = true
				}
			}
		}
		validated := len(w.callSitesIn(fn, "DataBlockMetadata.validateFilterSection")) > 0
		r.check(okc && validated, r4, "readChunkFrom:extent", w.pos(fn.Pos()), "chunk starts at the block's own section; later sections validated before they extend it", "the filter chunk read does not start at the evaluated block's section offset, or extends over unvalidated sections")
	}
	if fn := fnOrUndecided(w, r, r4, "blockFilterCursor.filtersFor"); fn != nil {
		fl := newFlow(w, fn, namedCalls(w, map[string]string{"DataBlockMetadata.validateFilterSection": "validate"}))
		okc, n := true, 0
		for _, in := range w.callSitesIn(fn, "blockFilterCursor.readChunkFrom", "blockFilterCursor.heldSection") {
			n++
			if !fl.Before(in).Must("ok:validate") {
				okc = false
			}
		}
		r.check(okc && n >= 2, r4, "filtersFor:validated-before-read", w.pos(fn.Pos()), "section bounds validated before any read or slice", "a block's filter section is read or sliced before its bounds were validated against the region")
	}
	c24R5(w, r)
	c24R7(w, r)
	c17R8(w, r, "C24.R8") // the MetaStore receives the file-level filters the file-level test needs
	nTable := c24R6(w, r)
	return propMeta{
		explanation: fmt.Sprintf("(R5) planBlockFilterReads' hasSections is a latch over the candidate blocks; (R6) exact prune table: evaluateBloomFilters interpreted over %d (tree, membership, absent-filter mask) cases equals its specification, so whatever the present filters rule out is disqualified. ", nTable) + "Effectiveness of pruning as reachability rules: (R1) the file-job send is unreachable from the false edge of the file-level bloom test and from an empty prefilter result; (R2) the block-filter pass opens and reads only when the prune query has conditions and the file has sections, and a block whose filters were read is queued for scanning only on the survived edge; (R3) row data is read only by processDataBlock (called only from the block worker), block jobs are sent only from the file worker's survivor loop; (R4) the scan reads exactly (RowDataOffset, RowDataSize) of its block and filter chunks start at the evaluated block's validated section.",
		notDecided:  "Request counts on real layouts (the existing query_handles tests measure those); that stores honour the extents they are asked for.",
	}
}

// derivedContext: constructors whose result is cancelled whenever the parent
// (first argument) is — so waiting on the child observes the parent's end.
var derivedContext = map[string]bool{"context.WithCancel": true, "context.WithTimeout": true, "context.WithDeadline": true, "context.WithValue": true, "context.WithCancelCause": true, "context.WithTimeoutCause": true, "context.WithDeadlineCause": true}

// ctxOrigins: where a context value comes from — struct fields it is loaded
// from ("field:Owner.name"), parameters ("param:fn.name", looking through
// closures' free variables to the binding in the parent), calls ("call:callee").
func ctxOrigins(w *World, v ssa.Value, seen map[ssa.Value]bool, out map[string]bool) {
	if v == nil || seen[v] {
		return
	}
	seen[v] = true
	switch x := v.(type) {
	case *ssa.Phi:
		for _, e := range x.Edges {
			ctxOrigins(w, e, seen, out)
		}
		return
	case *ssa.ChangeType:
		ctxOrigins(w, x.X, seen, out)
		return
	case *ssa.ChangeInterface:
		ctxOrigins(w, x.X, seen, out)
		return
	case *ssa.MakeInterface:
		ctxOrigins(w, x.X, seen, out)
		return
	case *ssa.Parameter:
		out["param:"+baseName(w.name(x.Parent()))+"."+x.Name()] = true
		return
	case *ssa.FreeVar:
		if b := freeVarBinding(x); b != nil {
			ctxOrigins(w, b, seen, out)
			return
		}
	case *ssa.Extract:
		if c, ok := x.Tuple.(*ssa.Call); ok {
			if derivedContext[w.calleeName(&c.Call)] && len(c.Call.Args) > 0 {
				ctxOrigins(w, c.Call.Args[0], seen, out) // a child context ends with its parent
				return
			}
			out["call:"+w.calleeName(&c.Call)] = true
			return
		}
	case *ssa.Call:
		if derivedContext[w.calleeName(&x.Call)] && len(x.Call.Args) > 0 {
			ctxOrigins(w, x.Call.Args[0], seen, out)
			return
		}
		out["call:"+w.calleeName(&x.Call)] = true
		return
	case *ssa.UnOp:
		if x.Op == token.MUL {
			if owner, field, _, ok := w.structFieldOf(x); ok {
				out["field:"+owner+"."+field] = true
				return
			}
			// a captured or address-taken local: the values stored into the cell
			cell := x.X
			if fv, ok := cell.(*ssa.FreeVar); ok {
				if b := freeVarBinding(fv); b != nil {
					cell = b
				}
			}
			if a, ok := cell.(*ssa.Alloc); ok {
				n := 0
				for _, ref := range *a.Referrers() {
					if st, ok := ref.(*ssa.Store); ok && st.Addr == ssa.Value(a) {
						n++
						ctxOrigins(w, st.Val, seen, out)
					}
				}
				if n > 0 {
					return
				}
			}
		}
	}
	out["?:"+w.path(v)] = true
}

// c20R7: everything that can block in the query's goroutines observes the
// cursor's own context (Results.ctx — cancelled by Close, by terminate and,
// being a child, by the caller), never the caller's context directly.
func c20R7(w *World, r *Report) {
	const rule = "C20.R7"
	r.rule(rule, "context provenance: in the goroutines Query starts (and everything they call) every context that is waited on (select Done case), passed to a callee or stored in a slot comes from Results.ctx — directly, through a querySlot built with it, or through a parameter every caller fills that way; the caller's context reaches only newResults", 13)
	q := fnOrUndecided(w, r, rule, "BloomSearchEngine.Query")
	if q == nil {
		return
	}
	// the goroutine region: functions reachable from Query's go sites and closures
	var roots []*ssa.Function
	for _, fn := range w.Funcs {
		if fn.Parent() != nil && outermost(fn) == q {
			roots = append(roots, fn)
		}
	}
	region := w.reachableFuncs(true, roots...)
	allowedField := map[string]bool{"field:Results.ctx": true, "field:querySlot.ctx": true}
	// param origins are allowed when the parameter belongs to a region function
	// (its call sites are themselves checked) that is not Query itself
	okOrigin := func(o string) bool {
		if allowedField[o] {
			return true
		}
		if strings.HasPrefix(o, "param:") {
			fnName := strings.TrimPrefix(o, "param:")
			fnName = fnName[:strings.LastIndex(fnName, ".")]
			if fnName == "BloomSearchEngine.Query" {
				return false
			}
			for fn := range region {
				if baseName(w.name(fn)) == fnName && (fn.Parent() == nil || outermost(fn) != fn) {
					return true
				}
			}
		}
		return false
	}
	isCtx := func(t types.Type) bool { return w.typeName(t) == "context.Context" }
	count := map[string]int{}
	check := func(fn *ssa.Function, in ssa.Instruction, what string, v ssa.Value) {
		out := map[string]bool{}
		ctxOrigins(w, v, map[ssa.Value]bool{}, out)
		var bad []string
		for o := range out {
			if !okOrigin(o) {
				bad = append(bad, o)
			}
		}
		sort.Strings(bad)
		ck := baseName(w.name(fn)) + ":" + what
		count[ck]++
		r.check(len(bad) == 0, rule, fmt.Sprintf("%s#%d", ck, count[ck]), w.instrPos(in), "context comes from Results.ctx", fmt.Sprintf("%s uses a context that does not come from the cursor's own context (%s): Close cancels only Results.ctx, so this wait does not end when the cursor is closed — Close and Next can block behind it", what, strings.Join(bad, ", ")))
	}
	var fns []*ssa.Function
	for fn := range region {
		if fn.Pkg == nil || fn.Pkg.Pkg.Path() != modulePath {
			continue
		}
		fns = append(fns, fn)
	}
	sort.Slice(fns, func(i, j int) bool { return w.name(fns[i]) < w.name(fns[j]) })
	for _, fn := range fns {
		eachInstr(fn, func(in ssa.Instruction) {
			switch x := in.(type) {
			case *ssa.Select:
				for _, st := range x.States {
					if c, ok := st.Chan.(*ssa.Call); ok && c.Call.IsInvoke() && c.Call.Method.Name() == "Done" && isCtx(c.Call.Value.Type()) {
						check(fn, in, "select-done", c.Call.Value)
					}
				}
			case *ssa.UnOp:
				if x.Op == token.ARROW {
					if c, ok := x.X.(*ssa.Call); ok && c.Call.IsInvoke() && c.Call.Method.Name() == "Done" && isCtx(c.Call.Value.Type()) {
						check(fn, in, "recv-done", c.Call.Value)
					}
				}
			case *ssa.Store:
				if owner, field, _, ok := w.structFieldOf(x.Addr); ok && isCtx(x.Val.Type()) && owner == "querySlot" {
					check(fn, in, "store:"+owner+"."+field, x.Val)
				}
			}
			if c := callOf(in); c != nil && !c.IsInvoke() {
				if _, isB := c.Value.(*ssa.Builtin); !isB {
					for _, a := range c.Args {
						if isCtx(a.Type()) {
							check(fn, in, "arg:"+w.calleeName(c), a)
						}
					}
				}
			} else if c != nil && c.IsInvoke() {
				for _, a := range c.Args {
					if isCtx(a.Type()) {
						check(fn, in, "arg:"+w.calleeName(c), a)
					}
				}
			}
		})
	}
	// Query itself: its ctx parameter goes to newResults only
	eachInstr(q, func(in ssa.Instruction) {
		c := callOf(in)
		if c == nil {
			return
		}
		for _, a := range c.Args {
			if p, ok := a.(*ssa.Parameter); ok && isCtx(p.Type()) {
				r.check(w.isCallTo(c, "newResults"), rule, "Query:caller-ctx->"+w.calleeName(c), w.instrPos(in), "the caller's context only parents the cursor's", "the caller's context is handed to "+w.calleeName(c)+" instead of the cursor's own context")
			}
		}
	})
}

// closers: summaries "this function closes its argument i exactly once on
// every path" / "closes every element of its slice argument i", so that a
// wrapper around Close (logging the error, say) counts as the close it performs.
type closers struct {
	w   *World
	one map[string]int // fn|i -> 0 unknown/in progress, 1 yes, 2 no
	all map[string]int
}

func newClosers(w *World) *closers {
	return &closers{w: w, one: map[string]int{}, all: map[string]int{}}
}

// isCloseOf: the call closes value v exactly once (directly or through a wrapper).
func (cs *closers) isCloseOf(site ssa.Instruction, c *ssa.CallCommon, v ssa.Value) bool {
	if _, isGo := site.(*ssa.Go); isGo {
		return false
	}
	if c.IsInvoke() {
		return c.Method.Name() == "Close" && c.Value == v
	}
	g := cs.w.staticCallee(c)
	if g == nil || g.Blocks == nil {
		return false
	}
	for j, a := range c.Args {
		if a == v && cs.closesParam(g, j) {
			return true
		}
	}
	return false
}

func (cs *closers) closesParam(g *ssa.Function, j int) bool {
	key := fmt.Sprintf("%p|%d", g, j)
	switch cs.one[key] {
	case 1:
		return true
	case 2:
		return false
	}
	cs.one[key] = 2 // recursion guard
	if j >= len(g.Params) {
		return false
	}
	p := g.Params[j]
	fl := newFlow(cs.w, g, &Classifier{Call: func(site ssa.Instruction, c *ssa.CallCommon) *Event {
		if cs.isCloseOf(site, c, p) {
			return (&Event{}).count("close")
		}
		return nil
	}})
	ok := true
	n := 0
	for _, ret := range fl.Returns() {
		n++
		if fl.Before(ret).Cnt("close") != c1 {
			ok = false
		}
	}
	if ok && n > 0 {
		cs.one[key] = 1
		return true
	}
	return false
}

// closesAllArg: the call closes every element of one of its slice arguments;
// returns that argument.
func (cs *closers) closesAllArg(site ssa.Instruction, c *ssa.CallCommon) ssa.Value {
	if _, isGo := site.(*ssa.Go); isGo || c.IsInvoke() {
		return nil
	}
	g := cs.w.staticCallee(c)
	if g == nil || g.Blocks == nil {
		return nil
	}
	for j, a := range c.Args {
		if _, isSlice := a.Type().Underlying().(*types.Slice); isSlice && cs.closesAll(g, j) {
			return a
		}
	}
	return nil
}

func (cs *closers) closesAll(g *ssa.Function, j int) bool {
	key := fmt.Sprintf("%p|%d", g, j)
	switch cs.all[key] {
	case 1:
		return true
	case 2:
		return false
	}
	cs.all[key] = 2
	if j >= len(g.Params) {
		return false
	}
	p := g.Params[j]
	var closeSite ssa.Instruction
	fl := newFlow(cs.w, g, &Classifier{Call: func(site ssa.Instruction, c *ssa.CallCommon) *Event {
		// the closed value is an element of the parameter: a load of p[i]
		var cand []ssa.Value
		if c.IsInvoke() {
			cand = []ssa.Value{c.Value}
		} else {
			cand = c.Args
		}
		for _, v := range cand {
			u, ok := v.(*ssa.UnOp)
			if !ok {
				continue
			}
			ia, ok := u.X.(*ssa.IndexAddr)
			if !ok || ia.X != ssa.Value(p) {
				continue
			}
			if cs.isCloseOf(site, c, v) {
				closeSite = site
				return ev("closed")
			}
		}
		return nil
	}})
	if closeSite == nil {
		return false
	}
	backs := loopBackEdgeFacts(fl, closeSite)
	if len(backs) == 0 {
		return false
	}
	for _, f := range backs {
		if !f.Must("closed") {
			return false
		}
	}
	// the loop ranges over the whole parameter and is left only when it is
	// exhausted (no early return or break on a failed Close)
	hdr := innermostHeader(closeSite.Block())
	if hdr == nil {
		return false
	}
	inLoop := loopOf(closeSite.Block())
	for b := range inLoop {
		if b == hdr {
			continue
		}
		for _, sb := range b.Succs {
			if !inLoop[sb] {
				return false
			}
		}
	}
	whole := false
	for _, in := range hdr.Instrs {
		if b, ok := in.(*ssa.BinOp); ok {
			if _, _, up := countsUp(b); up {
				if init, bound, _ := countsUp(b); init != nil {
					if z, isC := constInt(init); isC && z == 0 && lenOfValue(bound, p) {
						whole = true
					}
				}
			}
		}
		if ph, ok := in.(*ssa.Phi); ok {
			if init, bound, up := countsUp(ph); up {
				if z, isC := constInt(init); isC && z == 0 && lenOfValue(bound, p) {
					whole = true
				}
			}
		}
	}
	if whole {
		cs.all[key] = 1
	}
	return whole
}

// c21R6: inside the handle pool every handle has exactly one fate.
func c21R6(w *World, r *Report) {
	const rule = "C21.R6"
	r.rule(rule, "pool internals: put either stores the handle as idle or closes it — exactly one of the two on every path; discard closes it exactly once, synchronously; acquire removes the handle it lends from the idle set; detached idle sets are closed element by element, exactly once (closes may go through wrappers that themselves close their argument exactly once on every path)", 6)
	cs := newClosers(w)
	handleParam := func(fn *ssa.Function) *ssa.Parameter {
		for _, p := range fn.Params {
			if w.typeName(p.Type()) == "io.ReadSeekCloser" {
				return p
			}
		}
		return nil
	}
	if fn := fnOrUndecided(w, r, rule, "fileHandlePool.put"); fn != nil {
		hp := handleParam(fn)
		cl := &Classifier{
			Call: func(site ssa.Instruction, c *ssa.CallCommon) *Event {
				if hp != nil && cs.isCloseOf(site, c, hp) {
					return ev("closed").count("fate")
				}
				return nil
			},
			Instr: func(in ssa.Instruction) *Event {
				st, ok := in.(*ssa.Store)
				if !ok {
					return nil
				}
				if owner, field, _, ok := w.structFieldOf(st.Addr); ok && owner == "pooledFileHandles" && field == "idle" {
					if call, ok := st.Val.(*ssa.Call); ok {
						if _, elems, ok := appendedElems(call); ok {
							for _, e := range elems {
								if e == ssa.Value(hp) || (hp != nil && w.path(e) == w.path(hp)) {
									return ev("stored").count("fate")
								}
							}
						}
					}
				}
				return nil
			},
		}
		fl := newFlow(w, fn, cl)
		for i, ret := range fl.Returns() {
			f := fl.Before(ret)
			c := f.Cnt("fate")
			r.check(hp != nil && c == c1, rule, fmt.Sprintf("put:return#%d", i), w.instrPos(ret), "stored as idle or closed, exactly one", "put gives the handle "+cntString(c)+" fates (stored idle / closed) on paths to this return: a handle both closed and kept idle is lent out after close and closed again at teardown; a handle with neither is leaked")
		}
	}
	if fn := fnOrUndecided(w, r, rule, "fileHandlePool.discard"); fn != nil {
		hp := handleParam(fn)
		fl := newFlow(w, fn, &Classifier{Call: func(site ssa.Instruction, c *ssa.CallCommon) *Event {
			if hp != nil && cs.isCloseOf(site, c, hp) {
				return ev("closed").count("fate")
			}
			return nil
		}})
		for i, ret := range fl.Returns() {
			c := fl.Before(ret).Cnt("fate")
			r.check(hp != nil && c == c1, rule, fmt.Sprintf("discard:return#%d", i), w.instrPos(ret), "closed exactly once before discard returns", "discard returns with the handle closed "+cntString(c)+" times by the calling goroutine: the failed handle is not closed (or not yet closed) when the reader moves on, so Next can return false with a handle still open")
		}
	}
	if fn := fnOrUndecided(w, r, rule, "fileHandlePool.acquire"); fn != nil {
		// the lent handle is idle[last] and idle is cut to idle[:last] with the same last = len(idle)-1
		okc := false
		for _, ret := range newFlow(w, fn, &Classifier{}).Returns() {
			for _, v := range retVals(w, ret, 0) {
				u, ok := v.(*ssa.UnOp)
				if !ok {
					continue
				}
				ia, ok := u.X.(*ssa.IndexAddr)
				if !ok {
					continue
				}
				if _, field, _, ok := w.structFieldOf(ia.X); !ok || field != "idle" {
					continue
				}
				last, ok := ia.Index.(*ssa.BinOp)
				if !ok || last.Op != token.SUB {
					continue
				}
				if one, isC := constInt(last.Y); !isC || one != 1 {
					continue
				}
				eachInstr(fn, func(in ssa.Instruction) {
					st, ok := in.(*ssa.Store)
					if !ok {
						return
					}
					if st.Parent() == ret.Parent() {
						if !st.Block().Dominates(ret.Block()) {
							return
						}
					} else if st.Parent() != u.Parent() || !(st.Block() == u.Block() || u.Block().Dominates(st.Block()) || st.Block().Dominates(u.Block())) {
						return // in an extracted helper: on the path of the very load it lends
					}
					if _, field, _, ok := w.structFieldOf(st.Addr); !ok || field != "idle" {
						return
					}
					if sl, ok := st.Val.(*ssa.Slice); ok && sl.Low == nil && sl.High == ssa.Value(last) {
						okc = true
					}
				})
			}
		}
		r.check(okc, rule, "acquire:lent-handle-leaves-idle", w.pos(fn.Pos()), "idle[len-1] is returned and idle cut to idle[:len-1]", "acquire lends an idle handle without removing exactly that handle from the idle set: the same handle can be lent to two readers, or closed at teardown while in use")
	}
	for _, name := range []string{"fileHandlePool.release", "fileHandlePool.closeAll"} {
		fn := fnOrUndecided(w, r, rule, name)
		if fn == nil {
			continue
		}
		var closeSites []ssa.Instruction
		cl := &Classifier{
			Call: func(site ssa.Instruction, c *ssa.CallCommon) *Event {
				if arg := cs.closesAllArg(site, c); arg != nil && strings.Contains(w.path(arg), ".idle") {
					closeSites = append(closeSites, site)
					return ev("closedIdle").count("closeIdle")
				}
				if b, ok := c.Value.(*ssa.Builtin); ok && b.Name() == "delete" {
					return &Event{May: []string{"detached"}}
				}
				return nil
			},
			Instr: func(in ssa.Instruction) *Event {
				if st, ok := in.(*ssa.Store); ok {
					if owner, field, _, ok := w.structFieldOf(st.Addr); ok && owner == "fileHandlePool" && field == "files" && isNilConst(st.Val) {
						return &Event{May: []string{"detached"}}
					}
				}
				return nil
			},
		}
		fl := newFlow(w, fn, cl)
		if name == "fileHandlePool.release" {
			n := 0
			for i, ret := range fl.Returns() {
				f := fl.Before(ret)
				if !f.May("detached") {
					continue
				}
				n++
				c := f.Cnt("closeIdle")
				r.check(c == c1, rule, fmt.Sprintf("release:return#%d", i), w.instrPos(ret), "the detached idle set is closed once, element by element", "release removes a file's entry and closes its idle handles "+cntString(c)+" times: handles leak or are closed twice")
			}
			if n == 0 {
				r.undecided(rule, "release:detach", w.pos(fn.Pos()), "no path of release removes the file's entry")
			}
		} else {
			uniq := map[ssa.Instruction]bool{}
			for _, s := range closeSites {
				uniq[s] = true
			}
			okc := len(uniq) == 1
			if okc {
				site := closeSites[0]
				backs := loopBackEdgeFacts(fl, site)
				okc = len(backs) > 0
				for _, f := range backs {
					if !f.Must("closedIdle") {
						okc = false
					}
				}
				if f := fl.Before(site); f == nil || !f.May("detached") {
					okc = false
				}
			}
			r.check(okc, rule, "closeAll:every-entry-closed", w.pos(fn.Pos()), "every detached entry's idle set is closed", "closeAll can leave an entry's idle handles open (or closes them before detaching the map)")
		}
	}
}

// c20R8: the recording functions are lossless — whatever a worker reports
// reaches the list Err/Stats are computed from, whatever its value.
func c20R8(w *World, r *Report, rule string) {
	r.rule(rule, "lossless recording: recordQueryError appends its argument to Results.errs on every path, recordBlockError forwards its argument to it on every path, recordBlockStats appends its argument to Results.blockStats on every path, and joinedErrs joins the whole list — no failure is filtered by value", 4)
	appendsParam := func(fn *ssa.Function, field string) {
		var p *ssa.Parameter
		if len(fn.Params) >= 2 {
			p = fn.Params[1]
		}
		fl := newFlow(w, fn, &Classifier{Instr: func(in ssa.Instruction) *Event {
			st, ok := in.(*ssa.Store)
			if !ok {
				return nil
			}
			if owner, f, _, ok := w.structFieldOf(st.Addr); ok && owner == "Results" && f == field {
				if call, ok := st.Val.(*ssa.Call); ok {
					if base, elems, ok := appendedElems(call); ok && strings.HasSuffix(w.path(base), "."+field) {
						for _, e := range elems {
							if e == ssa.Value(p) {
								return ev("appended")
							}
						}
					}
				}
			}
			return nil
		}})
		n := 0
		for i, ret := range fl.Returns() {
			n++
			r.check(p != nil && fl.Before(ret).Must("appended"), rule, fmt.Sprintf("%s:return#%d", baseName(w.name(fn)), i), w.instrPos(ret), "argument appended to Results."+field, baseName(w.name(fn))+" can return without having appended its argument to Results."+field+": a reported failure (or a block's statistics) is silently dropped and the cursor ends as if nothing happened")
		}
		if n == 0 {
			r.undecided(rule, baseName(w.name(fn))+":returns", w.pos(fn.Pos()), "no return found")
		}
	}
	if fn := fnOrUndecided(w, r, rule, "Results.recordQueryError"); fn != nil {
		appendsParam(fn, "errs")
	}
	if fn := fnOrUndecided(w, r, rule, "Results.recordBlockStats"); fn != nil {
		appendsParam(fn, "blockStats")
	}
	if fn := fnOrUndecided(w, r, rule, "Results.recordBlockError"); fn != nil {
		var p *ssa.Parameter
		if len(fn.Params) >= 2 {
			p = fn.Params[1]
		}
		fl := newFlow(w, fn, &Classifier{Call: func(site ssa.Instruction, c *ssa.CallCommon) *Event {
			if _, isCall := site.(*ssa.Call); isCall && w.isCallTo(c, "Results.recordQueryError") && len(c.Args) == 2 && c.Args[1] == ssa.Value(p) {
				return ev("forwarded")
			}
			return nil
		}})
		for i, ret := range fl.Returns() {
			r.check(p != nil && fl.Before(ret).Must("forwarded"), rule, fmt.Sprintf("recordBlockError:return#%d", i), w.instrPos(ret), "argument forwarded to recordQueryError", "recordBlockError can return without recording the failure it was given (filtered by its value): a store failure is dropped, the block's rows are silently missing and Err is nil")
		}
	}
	if fn := fnOrUndecided(w, r, rule, "Results.joinedErrs"); fn != nil {
		okc := false
		for _, ret := range newFlow(w, fn, &Classifier{}).Returns() {
			for _, v := range retVals(w, ret, 0) {
				if c, ok := v.(*ssa.Call); ok && w.calleeName(&c.Call) == "errors.Join" && len(c.Call.Args) == 1 && strings.HasSuffix(w.path(c.Call.Args[0]), ".errs") {
					okc = true
				}
			}
		}
		r.check(okc, rule, "joinedErrs:whole-list", w.pos(fn.Pos()), "errors.Join over all recorded errors", "joinedErrs does not join the whole list of recorded errors: some recorded failure never reaches Err")
	}
}

// c20R9: who may cancel the cursor's context.
func c20R9(w *World, r *Report) {
	const rule = "C20.R9"
	r.rule(rule, "only the cursor cancels itself: Results.cancel is written only by newResults (the CancelFunc of context.WithCancel over the caller's context) and read only by Results.Close, Results.terminate and Results.finish; Results.ctx is written only there", 4)
	allowedRead := map[string]bool{"Results.Close": true, "Results.terminate": true, "Results.finish": true, "Results.Close$1": true}
	n := 0
	for _, fa := range w.fieldAccesses("Results") {
		if fa.Field != "cancel" && fa.Field != "ctx" {
			continue
		}
		host := baseName(w.name(fa.Fn))
		if fa.Write {
			n++
			r.check(host == "newResults", rule, "write:"+fa.Field+"@"+host, w.instrPos(fa.Instr), "set once by the constructor", "Results."+fa.Field+" is overwritten in "+host+": the cursor's context is no longer the one Close cancels and workers observe")
			continue
		}
		if fa.Field == "cancel" {
			n++
			r.check(allowedRead[host], rule, "read:cancel@"+host, w.instrPos(fa.Instr), "cancelled by the cursor's own terminal-state logic", host+" takes the cursor's CancelFunc: something other than Close, the terminal-state logic or the caller's context can now end the query — terminate reads such a cancellation as a deliberate Close, so the cursor ends early with a nil Err and rows missing")
		}
	}
	if fn := fnOrUndecided(w, r, rule, "newResults"); fn != nil {
		okc := false
		for _, in := range w.callSitesIn(fn, "context.WithCancel") {
			if p, ok := callOf(in).Args[0].(*ssa.Parameter); ok && p.Parent() == fn {
				okc = true
			}
		}
		n++
		r.check(okc, rule, "newResults:child-of-caller-ctx", w.pos(fn.Pos()), "context.WithCancel(caller's ctx)", "the cursor's context is not derived from the caller's context alone")
	}
	if n < 4 {
		r.undecided(rule, "anchors", "-", fmt.Sprintf("only %d uses of Results.cancel/ctx found", n))
	}
}
