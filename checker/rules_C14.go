package main

import (
	"fmt"
	"go/types"
	"strings"

	"golang.org/x/tools/go/ssa"
)

// C14 — snapshot consistency: MemoryMetaStore lock discipline, error
// discipline of the query region, atomic commit of the shipped stores.

func init() { register("C14", checkC14) }

func checkC14(w *World, r *Report, tier string) propMeta {
	c14R1(w, r)
	c14R2(w, r, "C14.R2")
	c20R8(w, r, "C14.R4")
	c14R3(w, r, "C14.R3")
	c02R7(w, r, "C14.R5") // a snapshot handed to one query is never rewritten by another query's filtering
	c13R5(w, r)           // merges are single-flight: two concurrent merges would each commit an output for the same sources
	c13R2R3R4(w, r)       // a merge commits its adds and removals in exactly one Update: no snapshot can see half of it
	return propMeta{
		explanation: "Snapshot consistency through what is schedule-independent: (R1) MemoryMetaStore.files is touched only under mu, Update performs adds and deletes in one write-locked critical section (no unlock may precede any map access), the iterator builds its snapshot under RLock and no yield call can run with mu held; (R2) in the query region every failure edge of handle acquisition, row-data read, filter read/plan, row scan, row materialisation and a yielded MetaStore error reaches recordBlockError/recordQueryError, skipped only when the query context is already cancelled — so a file removed under a running query surfaces as an error instead of silently omitted rows; (R3) every shipped MetaStore.Update must consume both operation lists: FileSystemDataStore.Update ignores its writes (known finding F1: publication happens at Close, not at the commit, so a query or crash between the two sees outputs and sources together or neither).",
		notDecided:  "The interleavings themselves; that a directory scan racing a merge reports an error for every vanished file (the filesystem MetaStore skips unreadable files by design — part of F1).",
	}
}

// guardedAccessCheck: every non-constructor access of owner.<field> has a lock
// whose path ends in lockSuffix in its must-held set (write mode for stores).
func guardedAccessCheck(w *World, r *Report, rule, owner string, fields []string, lockSuffix string, exceptions map[string]string) int {
	want := map[string]bool{}
	for _, f := range fields {
		want[f] = true
	}
	flows := map[*ssa.Function]*Flow{}
	n := 0
	count := map[string]int{}
	for _, fa := range w.fieldAccesses(owner) {
		if !want[fa.Field] || fa.InInit {
			continue
		}
		fl := flows[fa.Fn]
		if fl == nil {
			fl = newFlow(w, fa.Fn, lockClassifier(w, nil, nil))
			flows[fa.Fn] = fl
		}
		mode := "read"
		if fa.Write {
			mode = "write"
		}
		base := fmt.Sprintf("%s.%s@%s(%s)", owner, fa.Field, w.name(fa.Fn), mode)
		count[base]++
		key := fmt.Sprintf("%s#%d", base, count[base])
		f := fl.Before(fa.Instr)
		n++
		if why, ok := exceptions[base]; ok && !heldAny(f, lockSuffix, fa.Write) {
			r.ok(rule, key+"[exception]", w.instrPos(fa.Instr), "named exception: "+why)
			continue
		}
		r.check(heldAny(f, lockSuffix, fa.Write), rule, key, w.instrPos(fa.Instr), "under "+lockSuffix, owner+"."+fa.Field+" is accessed ("+mode+") without "+lockSuffix+" held on every path: a concurrent reader/writer sees a torn or stale state")
	}
	return n
}

func c14R1(w *World, r *Report) {
	const rule = "C14.R1"
	r.rule(rule, "MemoryMetaStore: files only under mu; Update is one write-locked critical section; snapshot under RLock; no yield with mu possibly held", 6)
	guardedAccessCheck(w, r, rule, "MemoryMetaStore", []string{"files"}, ".mu", nil)
	if fn := fnOrUndecided(w, r, rule, "MemoryMetaStore.Update"); fn != nil {
		cl := lockClassifier(w, nil, nil)
		inner := cl.Call
		cl.Call = func(site ssa.Instruction, c *ssa.CallCommon) *Event {
			e := inner(site, c)
			if _, isDefer := site.(*ssa.Defer); !isDefer {
				if f := w.staticCallee(c); f != nil && strings.HasSuffix(f.String(), "Unlock") {
					return mergeEvents(e, &Event{May: []string{"unlocked"}})
				}
			}
			return e
		}
		fl := newFlow(w, fn, cl)
		for _, fa := range w.fieldAccesses("MemoryMetaStore") {
			if fa.Fn != fn || fa.Field != "files" {
				continue
			}
			f := fl.Before(fa.Instr)
			r.check(!f.May("unlocked"), rule, "MemoryMetaStore.Update:one-critical-section", w.instrPos(fa.Instr), "no unlock before this map access", "the lock is released between map accesses of Update: a query can observe the adds without the deletes (rows twice) or the deletes without the adds (rows missing)")
		}
		// both lists consumed under the lock
		for i, name := range []string{"writeOps", "deleteOps"} {
			if 2+i >= len(fn.Params) {
				continue
			}
			p := fn.Params[2+i]
			used := p.Referrers() != nil && len(*p.Referrers()) > 0
			lockedUse := used
			for _, ref := range *p.Referrers() {
				if f := fl.Before(ref); f != nil && !heldAny(f, ".mu", true) {
					if _, isDbg := ref.(*ssa.DebugRef); !isDbg {
						lockedUse = false
					}
				}
			}
			r.check(used && lockedUse, rule, "MemoryMetaStore.Update:uses("+name+")", w.pos(fn.Pos()), "list applied under the write lock", "Update does not apply its "+name+" under the write lock")
		}
	}
	// the iterator closure
	for _, fn := range w.Funcs {
		if fn.Parent() == nil || w.name(fn.Parent()) != "MemoryMetaStore.GetMaybeFilesForQuery" {
			continue
		}
		// functions that (transitively) read the file map on their own
		readsFiles := map[*ssa.Function]bool{}
		for _, fa := range w.fieldAccesses("MemoryMetaStore") {
			if fa.Field == "files" && fa.Fn != fn {
				readsFiles[fa.Fn] = true
			}
		}
		for changed := true; changed; {
			changed = false
			for _, g := range w.Funcs {
				if readsFiles[g] || g == fn || !w.ours(g) {
					continue
				}
				eachInstr(g, func(in ssa.Instruction) {
					if c := callOf(in); c != nil {
						if callee := w.staticCallee(c); callee != nil && readsFiles[callee] && !readsFiles[g] {
							readsFiles[g] = true
							changed = true
						}
					}
				})
			}
		}
		var helperReads []ssa.Instruction
		icl := lockClassifier(w, nil, nil)
		innerCall := icl.Call
		icl.Call = func(site ssa.Instruction, c *ssa.CallCommon) *Event {
			e := innerCall(site, c)
			if f := w.staticCallee(c); f != nil && strings.HasSuffix(f.String(), "Unlock") {
				return mergeEvents(e, &Event{May: []string{"unlocked"}})
			}
			if f := w.staticCallee(c); f != nil && readsFiles[f] {
				if _, isCall := site.(*ssa.Call); isCall {
					helperReads = append(helperReads, site)
					// a helper that reads the map under its own lock is a whole read section
					return mergeEvents(e, &Event{May: []string{"unlocked"}})
				}
			}
			return e
		}
		fl := newFlow(w, fn, icl)
		seenHelper := map[ssa.Instruction]bool{}
		for _, site := range helperReads {
			if seenHelper[site] {
				continue
			}
			seenHelper[site] = true
			f := fl.Before(site)
			r.check(f != nil && !f.May("unlocked"), rule, "MemoryMetaStore.iterator:single-snapshot(helper)", w.instrPos(site), "the only read section of the iteration", "the iterator reads the file map in more than one locked section (through "+w.calleeName(callOf(site))+", possibly once per page): a merge commit between two sections removes sources the query has not reached and adds an output it never lists — rows silently missing, or returned twice, with a nil error")
		}
		// the candidate set is ONE snapshot: every read of files happens in the first
		// read-locked section (a second section would see a different map state)
		for _, fa := range w.fieldAccesses("MemoryMetaStore") {
			if fa.Fn != fn || fa.Field != "files" {
				continue
			}
			f := fl.Before(fa.Instr)
			r.check(f != nil && !f.May("unlocked"), rule, "MemoryMetaStore.iterator:single-snapshot", w.instrPos(fa.Instr), "files read only inside the first read-locked section", "the iterator reads the file map again after releasing the lock: a merge commit between the two sections removes sources the query has not reached and adds an output it never lists — rows silently missing with a nil error")
		}
		ny := 0
		eachInstr(fn, func(in ssa.Instruction) {
			c, ok := in.(*ssa.Call)
			if !ok || w.calleeName(&c.Call) != "dyn:p:yield" {
				return
			}
			ny++
			f := fl.Before(in)
			r.check(!f.MayPrefix("held:") && !f.MayPrefix("rheld:"), rule, fmt.Sprintf("MemoryMetaStore.iterator:yield#%d", ny), w.instrPos(in), "yield with no lock possibly held", "a yield can run with mu held: a slow consumer blocks every flush (and a merge commit) behind a paused query")
		})
		if ny == 0 {
			r.undecided(rule, "MemoryMetaStore.iterator:yield", w.pos(fn.Pos()), "no yield call found in the iterator")
		}
	}
}

var queryFailCalls = map[string]string{
	"fileHandlePool.acquire":       "acquire",
	"readPooledBlockRowData":       "readRows",
	"blockFilterCursor.filtersFor": "filtersFor",
	"planBlockFilterReads":         "plan",
	"BlockRowScanner.Next":         "scanNext",
	"materializeRow":               "materialize",
}

// c14R2: failures surface.
func c14R2(w *World, r *Report, rule string) {
	r.rule(rule, "failures surface: in the query region every failure edge of acquire, readPooledBlockRowData, filtersFor, planBlockFilterReads, scanner.Next, materializeRow and a yielded MetaStore error reaches recordBlockError/recordQueryError before the function returns (skipped only when the query context is cancelled)", 7)
	q := w.fn("BloomSearchEngine.Query")
	if q == nil {
		r.undecided(rule, "anchor:Query", "-", "Query not found")
		return
	}
	region := w.reachableFuncs(true, q)
	base := &Classifier{
		Call: func(site ssa.Instruction, c *ssa.CallCommon) *Event {
			switch w.calleeName(c) {
			case "Results.recordBlockError", "Results.recordQueryError":
				return ev("surfaced").kill("pending:*")
			}
			return nil
		},
		CallEdge: func(call ssa.Value, outcome string) *Event {
			c, ok := call.(*ssa.Call)
			if !ok {
				return nil
			}
			n := w.calleeName(&c.Call)
			if n == "context.Context.Err" && outcome == "fail" {
				// the query context is cancelled: the terminal state already tells the story
				return ev("surfaced").kill("pending:*")
			}
			if l, ok := queryFailCalls[n]; ok && outcome == "fail" {
				return &Event{May: []string{"pending:" + l}, Must: []string{"failed:" + l}}
			}
			return nil
		},
		Cond: func(c Cond, taken bool) *Event {
			// a yielded MetaStore error: `err != nil` on the range-over-func body's error parameter
			if p, ok := c.X.(*ssa.Parameter); ok && isNilConst(c.Y) && isErrorType(p.Type()) {
				if fnp := p.Parent(); fnp != nil && strings.HasPrefix(fnp.Synthetic, "range-over-func") {
					if (c.Op == "!=" && taken) || (c.Op == "==" && !taken) {
						return &Event{May: []string{"pending:iterator"}, Must: []string{"failed:iterator"}}
					}
				}
			}
			// ctx.Err() != nil tested as a condition (not via a stored call result)
			return nil
		},
	}
	seen := map[string]int{}
	for _, name := range w.funcNames(region) {
		fn := w.fn(name)
		relevant := false
		eachInstr(fn, func(in ssa.Instruction) {
			if c := callOf(in); c != nil {
				if _, ok := queryFailCalls[w.calleeName(c)]; ok {
					relevant = true
				}
			}
		})
		if strings.HasPrefix(fn.Synthetic, "range-over-func") && outermost(fn) == q {
			relevant = true
		}
		if !relevant {
			continue
		}
		var fl *Flow
		cl := *base
		cl.Call = func(site ssa.Instruction, c *ssa.CallCommon) *Event {
			e := base.Call(site, c)
			if callee := w.staticCallee(c); callee != nil && callee.Parent() != nil && w.ours(callee) && fl != nil {
				if s := fl.Summary(callee); s != nil {
					for _, l := range s.Must {
						if l == "surfaced" {
							return mergeEvents(e, ev("surfaced").kill("pending:*"))
						}
					}
				}
			}
			return e
		}
		fl = &Flow{w: w, fn: fn, cl: &cl, sums: map[*ssa.Function]*Event{}, stack: map[*ssa.Function]bool{fn: true}}
		fl.run()
		// one obligation per failure edge kind present in the function
		kinds := map[string]bool{}
		for _, b := range fn.Blocks {
			for si := range b.Succs {
				if f := fl.EdgeFacts(b, si); f != nil {
					for l := range f.may {
						if strings.HasPrefix(l, "pending:") {
							kinds[strings.TrimPrefix(l, "pending:")] = true
						}
					}
				}
			}
		}
		leaks := map[string]string{}
		for _, ret := range fl.Returns() {
			f := fl.Before(ret)
			for l := range f.may {
				if strings.HasPrefix(l, "pending:") {
					leaks[strings.TrimPrefix(l, "pending:")] = w.instrPos(ret)
				}
			}
		}
		for k := range kinds {
			seen[k]++
			pos, leaked := leaks[k]
			r.check(!leaked, rule, name+":fail("+k+")", w.pos(fn.Pos()), "failure recorded on every path to a return", "a failure of "+k+" can reach the return at "+pos+" without being recorded: the query would finish with a nil error and silently omitted rows")
		}
	}
	for _, k := range []string{"acquire", "readRows", "filtersFor", "plan", "scanNext", "materialize", "iterator"} {
		if seen[k] == 0 {
			r.undecided(rule, "anchor:fail("+k+")", "-", "no failure edge of "+k+" found in the query region: the anchor no longer resolves")
		}
	}
}

// c14R3: atomic commit of every shipped MetaStore.
func c14R3(w *World, r *Report, rule string) {
	r.rule(rule, "atomic commit: every shipped MetaStore.Update consumes both operation lists (writes and deletes) — a store that ignores one of them cannot commit a merge's adds and removals as one step", 2)
	// concrete MetaStore implementations: named types in the package with an Update method of the interface's signature
	var msIface *types.Interface
	if obj := w.Pkg.Types.Scope().Lookup("MetaStore"); obj != nil {
		msIface, _ = obj.Type().Underlying().(*types.Interface)
	}
	if msIface == nil {
		r.undecided(rule, "anchor:MetaStore", "-", "MetaStore interface not found")
		return
	}
	n := 0
	for _, name := range w.Pkg.Types.Scope().Names() {
		tn, ok := w.Pkg.Types.Scope().Lookup(name).(*types.TypeName)
		if !ok {
			continue
		}
		pt := types.NewPointer(tn.Type())
		if !types.Implements(pt, msIface) || types.IsInterface(tn.Type()) {
			continue
		}
		fn := w.fn(name + ".Update")
		if fn == nil || len(fn.Params) < 4 {
			r.undecided(rule, name+".Update", "-", "Update method not found for MetaStore implementation "+name)
			continue
		}
		n++
		for i, list := range []string{"writes", "deletes"} {
			p := fn.Params[2+i]
			used := false
			if refs := p.Referrers(); refs != nil {
				for _, ref := range *refs {
					if _, isDbg := ref.(*ssa.DebugRef); !isDbg {
						used = true
					}
				}
			}
			r.check(used, rule, name+".Update:"+list+"-ignored", w.pos(fn.Pos()), list+" are applied", name+".Update never reads its "+list+": the commit cannot be atomic with publication — outputs are visible from writer.Close, sources until each is removed")
		}
	}
	if n < 2 {
		r.undecided(rule, "implementations", "-", fmt.Sprintf("found %d MetaStore implementations, expected the two shipped stores", n))
	}
}
