package main

import (
	"fmt"
	"go/types"
	"sort"

	"golang.org/x/tools/go/ssa"
)

// errOrigins: the error-returning calls whose result a value can be (through phis).
func errOrigins(v ssa.Value, seen map[ssa.Value]bool, out map[ssa.Instruction]bool) {
	if v == nil || seen[v] {
		return
	}
	seen[v] = true
	switch x := v.(type) {
	case *ssa.Phi:
		for _, e := range x.Edges {
			errOrigins(e, seen, out)
		}
	case *ssa.Extract:
		if c, ok := x.Tuple.(*ssa.Call); ok {
			out[c] = true
		}
	case *ssa.Call:
		out[x] = true
	case *ssa.ChangeInterface:
		errOrigins(x.X, seen, out)
	case *ssa.MakeInterface:
		errOrigins(x.X, seen, out)
	}
}

// errDropExceptions: calls in the file-writing region whose error is
// deliberately not propagated, each with the reason it is harmless here.
var errDropExceptions = map[string]string{
	"BloomSearchEngine.abortFileWriter:io.WriteCloser.Close": "cleanup of a file that already failed: the caller reports its original error and the pointer is tombstoned right after (C06.R2 checks that every failure exit passes through here)",
}

var bufferedWriterCalls = map[string]bool{"(*bufio.Writer).Flush": true, "(*bufio.Writer).Write": true, "(*bufio.Writer).WriteString": true, "(*bufio.Writer).WriteByte": true}

var storeMustCheck = map[string]bool{"DataStore.CreateFile": true, "DataStore.OpenFile": true, "MetaStore.Update": true}

// c06R5: no error of the file-writing path is dropped or overwritten unchecked.
func c06R5(w *World, r *Report) {
	const rule = "C06.R5"
	r.rule(rule, "no write error dropped: in the functions that produce a file (flush and merge write paths) the error of every Write/Close on a writer interface, and of every package function that (transitively) performs one, is tested, returned, wrapped or stored on every path before the function returns and before the same call site runs again", 26)
	roots := []*ssa.Function{}
	for _, n := range []string{"BloomSearchEngine.handleFlush", "BloomSearchEngine.merge"} {
		if fn := fnOrUndecided(w, r, rule, n); fn != nil {
			roots = append(roots, fn)
		}
	}
	region := w.reachableFuncs(false, roots...)
	names := w.funcNames(region)
	nSites := 0
	// writer functions: package functions returning error that (transitively) write through an io.Writer
	isWriterIface := func(v ssa.Value) bool {
		it, ok := v.Type().Underlying().(*types.Interface)
		if !ok {
			return false
		}
		for i := 0; i < it.NumMethods(); i++ {
			if it.Method(i).Name() == "Write" {
				return true
			}
		}
		return false
	}
	returnsErr := func(c *ssa.CallCommon) bool {
		res := c.Signature().Results()
		return res.Len() > 0 && isErrorType(res.At(res.Len()-1).Type())
	}
	writerFns := map[*ssa.Function]bool{}
	for changed := true; changed; {
		changed = false
		for _, name := range names {
			fn := w.fn(name)
			if fn == nil || !w.ours(fn) || fn.Blocks == nil || writerFns[fn] {
				continue
			}
			res := fn.Signature.Results()
			if res.Len() == 0 || !isErrorType(res.At(res.Len()-1).Type()) {
				continue
			}
			hit := false
			eachInstr(fn, func(in ssa.Instruction) {
				c, ok := in.(*ssa.Call)
				if !ok {
					return
				}
				if c.Call.IsInvoke() && (c.Call.Method.Name() == "Write" || c.Call.Method.Name() == "Close") && isWriterIface(c.Call.Value) {
					hit = true
				}
				if g := w.staticCallee(&c.Call); g != nil && writerFns[g] {
					hit = true
				}
				if bufferedWriterCalls[w.calleeName(&c.Call)] {
					hit = true
				}
			})
			if hit {
				writerFns[fn] = true
				changed = true
			}
		}
	}
	for _, name := range names {
		fn := w.fn(name)
		if fn == nil || !w.ours(fn) || fn.Blocks == nil {
			continue
		}
		// write-effect call sites of this function: Write/Close on a writer interface, or a writer function
		sites := map[ssa.Instruction]string{}
		eachInstr(fn, func(in ssa.Instruction) {
			c, ok := in.(*ssa.Call)
			if !ok || !returnsErr(&c.Call) {
				return
			}
			switch {
			case c.Call.IsInvoke() && (c.Call.Method.Name() == "Write" || c.Call.Method.Name() == "Close") && isWriterIface(c.Call.Value):
				sites[c] = w.calleeName(&c.Call)
			case bufferedWriterCalls[w.calleeName(&c.Call)]:
				// a buffering writer defers the real write: its Flush (and Write, once the buffer is full) carries the store's error
				sites[c] = w.calleeName(&c.Call)
			case storeMustCheck[w.calleeName(&c.Call)]:
				// the store calls a file's existence and visibility depend on
				// (TombstoneFile is cleanup: its error is reported where the
				// protocol needs it — C13.R5 — and dropped on failure paths)
				sites[c] = w.calleeName(&c.Call)
			default:
				if g := w.staticCallee(&c.Call); g != nil && writerFns[g] {
					sites[c] = w.calleeName(&c.Call)
				}
			}
		})
		// a deferred write-effect call discards its error by construction
		eachInstr(fn, func(in ssa.Instruction) {
			d, ok := in.(*ssa.Defer)
			if !ok || !returnsErr(&d.Call) {
				return
			}
			n := w.calleeName(&d.Call)
			isW := d.Call.IsInvoke() && (d.Call.Method.Name() == "Write" || d.Call.Method.Name() == "Close") && isWriterIface(d.Call.Value)
			if g := w.staticCallee(&d.Call); g != nil && writerFns[g] {
				isW = true
			}
			if bufferedWriterCalls[n] {
				isW = true
			}
			if isW {
				nSites++
				r.bad(rule, fmt.Sprintf("%s:deferred:%s", name, n), w.instrPos(in), "the error of "+n+" is discarded by a defer: when that call is what carries the bytes to the store (a buffered writer's Flush, a publishing Close), its failure is swallowed and the file is acknowledged although part of it was never written")
			}
		})
		if len(sites) == 0 {
			continue
		}
		label := func(site ssa.Instruction) string { return "pend:" + w.instrPos(site) + ":" + sites[site] }
		killFor := func(v ssa.Value) *Event {
			out := map[ssa.Instruction]bool{}
			errOrigins(v, map[ssa.Value]bool{}, out)
			var e *Event
			for s := range out {
				if _, ok := sites[s]; ok {
					if e == nil {
						e = &Event{}
					}
					e.kill(label(s))
				}
			}
			return e
		}
		reentered := map[ssa.Instruction]bool{}
		var fl *Flow
		cl := &Classifier{
			Cond: func(c Cond, taken bool) *Event {
				if c.X != nil && isErrorType(c.X.Type()) {
					return killFor(c.X)
				}
				return nil
			},
			Instr: func(in ssa.Instruction) *Event {
				var e *Event
				switch x := in.(type) {
				case *ssa.Return:
					for _, res := range x.Results {
						if isErrorType(res.Type()) {
							e = mergeEvents(e, killFor(res))
						}
					}
				case *ssa.Store:
					if isErrorType(x.Val.Type()) {
						e = killFor(x.Val)
					}
				case *ssa.MakeInterface, *ssa.ChangeInterface:
				case *ssa.Send:
					e = killFor(x.X)
				case *ssa.MapUpdate:
					e = killFor(x.Value)
				}
				return e
			},
			Call: func(site ssa.Instruction, c *ssa.CallCommon) *Event {
				var e *Event
				// an error handed to a call (wrapped, logged, sent, appended) is consumed
				for _, a := range c.Args {
					if isErrorType(a.Type()) {
						e = mergeEvents(e, killFor(a))
					}
					// variadic ...any packs: look into the literal array
					if sl, ok := a.(*ssa.Slice); ok {
						if al, ok := sl.X.(*ssa.Alloc); ok {
							for _, ref := range *al.Referrers() {
								if ia, ok := ref.(*ssa.IndexAddr); ok {
									for _, r2 := range *ia.Referrers() {
										if st, ok := r2.(*ssa.Store); ok {
											if mi, ok := st.Val.(*ssa.MakeInterface); ok && isErrorType(mi.X.Type()) {
												e = mergeEvents(e, killFor(mi.X))
											}
										}
									}
								}
							}
						}
					}
				}
				if _, ok := sites[site]; ok {
					if _, isCall := site.(*ssa.Call); isCall {
						e = mergeEvents(e, &Event{May: []string{label(site)}})
					}
				}
				return e
			},
		}
		fl = newFlow(w, fn, cl)
		// obligations
		var ordered []ssa.Instruction
		for s := range sites {
			ordered = append(ordered, s)
		}
		sort.Slice(ordered, func(i, j int) bool {
			return w.instrPos(ordered[i])+sites[ordered[i]] < w.instrPos(ordered[j])+sites[ordered[j]]
		})
		count := map[string]int{}
		for _, s := range ordered {
			nSites++
			callee := sites[s]
			ck := fmt.Sprintf("%s:%s", name, callee)
			count[ck]++
			key := fmt.Sprintf("%s#%d", ck, count[ck])
			if why, ok := errDropExceptions[name+":"+callee]; ok {
				r.ok(rule, key+"[exception]", w.instrPos(s), "named exception: "+why)
				continue
			}
			leak := ""
			for _, ret := range fl.Returns() {
				propagated := map[ssa.Instruction]bool{}
				for i := range ret.Results {
					if isErrorType(ret.Results[i].Type()) {
						errOrigins(retOperand(ret, i), map[ssa.Value]bool{}, propagated)
					}
				}
				if f := fl.Before(ret); f != nil && f.May(label(s)) && !propagated[s] {
					leak = "reaches the return at " + w.instrPos(ret) + " unchecked"
				}
			}
			if f := fl.Before(s); f != nil && f.May(label(s)) {
				reentered[s] = true
				leak = "can be overwritten by the next execution of the same call before it was checked"
			}
			r.check(leak == "", rule, key, w.instrPos(s), "error tested, returned, wrapped or stored on every path", fmt.Sprintf("the error of %s %s: a failed write/close/store call is swallowed, the file is published and acknowledged as durable although part of it was never written", callee, leak))
		}
	}
	if nSites == 0 {
		r.undecided(rule, "region", "-", "no error-returning call found in the file-writing region")
	}
}
