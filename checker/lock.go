package main

// E4: lock facts as a gen/kill instance of the flow engine.
//
//	held:<path>   the mutex at <path> is write-locked (Mutex.Lock / RWMutex.Lock / TryLock true edge)
//	rheld:<path>  the RWMutex at <path> is read-locked
//
// Unlocks kill the fact (and any label listed in killOnUnlock — facts that are
// only valid while the lock is held, such as a flag read under it).

import (
	"strings"

	"golang.org/x/tools/go/ssa"
)

func lockPath(w *World, v ssa.Value) string { return deref(w.path(v)) }

func lockEvent(w *World, c *ssa.CallCommon, killOnUnlock []string) *Event {
	if c.IsInvoke() || len(c.Args) == 0 {
		return nil
	}
	f := c.StaticCallee()
	if f == nil {
		return nil
	}
	switch f.String() {
	case "(*sync.Mutex).Lock", "(*sync.RWMutex).Lock":
		return ev("held:" + lockPath(w, c.Args[0]))
	case "(*sync.RWMutex).RLock":
		return ev("rheld:" + lockPath(w, c.Args[0]))
	case "(*sync.Mutex).Unlock", "(*sync.RWMutex).Unlock":
		return (&Event{}).kill(append([]string{"held:" + lockPath(w, c.Args[0])}, killOnUnlock...)...)
	case "(*sync.RWMutex).RUnlock":
		return (&Event{}).kill(append([]string{"rheld:" + lockPath(w, c.Args[0])}, killOnUnlock...)...)
	}
	return nil
}

func isTryLock(c *ssa.CallCommon) bool {
	if c.IsInvoke() {
		return false
	}
	f := c.StaticCallee()
	return f != nil && (f.String() == "(*sync.Mutex).TryLock" || f.String() == "(*sync.RWMutex).TryLock")
}

func lockClassifier(w *World, killOnUnlock []string, cond func(Cond, bool) *Event) *Classifier {
	return &Classifier{
		Call: func(site ssa.Instruction, c *ssa.CallCommon) *Event {
			return lockEvent(w, c, killOnUnlock)
		},
		CallEdge: func(call ssa.Value, outcome string) *Event {
			if c, ok := call.(*ssa.Call); ok && isTryLock(&c.Call) && outcome == "true" {
				return ev("held:" + lockPath(w, c.Call.Args[0]))
			}
			return nil
		},
		Cond: cond,
	}
}

// heldAny reports whether some lock whose path ends in suffix is held
// (write mode when write is set).
func heldAny(f *Facts, suffix string, write bool) bool {
	if f == nil {
		return false
	}
	for l := range f.must {
		if strings.HasPrefix(l, "held:") && strings.HasSuffix(l, suffix) {
			return true
		}
		if !write && strings.HasPrefix(l, "rheld:") && strings.HasSuffix(l, suffix) {
			return true
		}
	}
	return false
}
