package main

// Loading of /repo's current working tree into a type-checked program, its SSA
// form and (lazily) a VTA call graph, plus the naming helpers every rule uses
// to select sites by semantic identity (resolved callee, field object, access
// path) rather than by text or position.

import (
	"fmt"
	"go/token"
	"go/types"
	"os"
	"sort"
	"strings"

	"golang.org/x/tools/go/callgraph"
	"golang.org/x/tools/go/callgraph/cha"
	"golang.org/x/tools/go/callgraph/vta"
	"golang.org/x/tools/go/packages"
	"golang.org/x/tools/go/ssa"
	"golang.org/x/tools/go/ssa/ssautil"
)

const modulePath = "github.com/danthegoodman1/bloomsearch"

type World struct {
	Dir    string
	Tags   string
	Fset   *token.FileSet
	Pkg    *packages.Package
	All    []*packages.Package
	Prog   *ssa.Program
	SSAPkg *ssa.Package
	Funcs  []*ssa.Function // every source function, closure and generic instance of the package
	byName map[string]*ssa.Function

	phiBusy     map[*ssa.Phi]bool
	absorbMemo  map[*ssa.Function]bool
	renamed     map[*ssa.Function]string
	paramCtx    map[*ssa.Parameter]ssa.Value // bindings of the helper call being analysed in line (absorb.go)
	callSitesOf map[*ssa.Function][]*ssa.Call
	cg          *callgraph.Graph
	Blocks      int
	Instrs      int
	loadNotes   []string
}

func repoDir() string {
	if d := os.Getenv("BSCHECK_REPO"); d != "" {
		return d
	}
	return "/repo"
}

func loadWorld(dir, tags, goarch string) (*World, error) {
	env := append([]string{}, os.Environ()...)
	if _, err := os.Stat("/opt/veriftools/go1.26.8/bin/go"); err == nil {
		// /repo needs go >= 1.26; the system go is older and nothing can be fetched.
		// (go/packages looks `go` up through this process's PATH)
		os.Setenv("PATH", "/opt/veriftools/go1.26.8/bin:"+os.Getenv("PATH"))
		env = append(env, "PATH="+os.Getenv("PATH"))
	}
	env = append(env, "GOFLAGS=-mod=mod", "GOPROXY=off", "GOSUMDB=off", "GOWORK=off", "GOTOOLCHAIN=local")
	if goarch != "" {
		env = append(env, "GOARCH="+goarch, "CGO_ENABLED=0")
	}
	cfg := &packages.Config{
		Mode:  packages.LoadAllSyntax,
		Dir:   dir,
		Env:   env,
		Tests: false,
	}
	if tags != "" {
		cfg.BuildFlags = []string{"-tags", tags}
	}
	pkgs, err := packages.Load(cfg, ".")
	if err != nil {
		return nil, fmt.Errorf("packages.Load: %w", err)
	}
	if len(pkgs) != 1 {
		return nil, fmt.Errorf("expected exactly 1 root package, got %d", len(pkgs))
	}
	root := pkgs[0]
	if root.PkgPath != modulePath {
		return nil, fmt.Errorf("unexpected root package %q", root.PkgPath)
	}
	var terrs []string
	packages.Visit(pkgs, nil, func(p *packages.Package) {
		for _, e := range p.Errors {
			terrs = append(terrs, p.PkgPath+": "+e.Error())
		}
	})
	if len(terrs) > 0 {
		return nil, fmt.Errorf("type/load errors (a static tool sees only what was parsed): %s", strings.Join(terrs, "; "))
	}
	prog, spkgs := ssautil.AllPackages(pkgs, ssa.InstantiateGenerics)
	prog.Build()
	w := &World{Dir: dir, Tags: tags, Fset: root.Fset, Pkg: root, All: pkgs, Prog: prog, SSAPkg: spkgs[0], byName: map[string]*ssa.Function{}}
	if w.SSAPkg == nil {
		return nil, fmt.Errorf("no SSA package built for root")
	}
	w.collectFuncs()
	theWorld = w
	return w, nil
}

func (w *World) ours(fn *ssa.Function) bool {
	for f := fn; f != nil; f = f.Parent() {
		if f.Pkg == w.SSAPkg {
			return true
		}
		if o := f.Origin(); o != nil && o.Pkg == w.SSAPkg {
			return true
		}
	}
	return false
}

func (w *World) collectFuncs() {
	seen := map[*ssa.Function]bool{}
	var add func(fn *ssa.Function)
	add = func(fn *ssa.Function) {
		if fn == nil || seen[fn] {
			return
		}
		seen[fn] = true
		if len(fn.Blocks) == 0 {
			return
		}
		if fn.TypeParams().Len() > 0 && len(fn.TypeArgs()) == 0 {
			// the uninstantiated body of a generic function: its instances are analysed instead
			return
		}
		w.Funcs = append(w.Funcs, fn)
		for _, a := range fn.AnonFuncs {
			add(a)
		}
	}
	for fn := range ssautil.AllFunctions(w.Prog) {
		if !w.ours(fn) {
			continue
		}
		if fn.Synthetic != "" && !strings.HasPrefix(fn.Synthetic, "instance of") && fn.Parent() == nil {
			// wrappers, bound-method thunks, package initialiser
			if fn.Name() != "init" {
				continue
			}
		}
		add(fn)
	}
	w.resolveRenames()
	sort.Slice(w.Funcs, func(i, j int) bool { return w.name(w.Funcs[i]) < w.name(w.Funcs[j]) })
	for _, fn := range w.Funcs {
		w.byName[w.name(fn)] = fn
		w.Blocks += len(fn.Blocks)
		for _, b := range fn.Blocks {
			w.Instrs += len(b.Instrs)
		}
	}
}

// name gives a short stable name: "BloomSearchEngine.handleFlush",
// "BloomSearchEngine.handleFlush$1", "sendWithContext[error]", "os.Rename",
// "(*os.File).Sync".
func (w *World) name(fn *ssa.Function) string {
	if fn == nil {
		return "<nil>"
	}
	if old, ok := w.renamed[fn]; ok {
		return old
	}
	if p := fn.Parent(); p != nil {
		// a closure of a renamed function keeps its position under the old name
		top := p
		for top.Parent() != nil {
			top = top.Parent()
		}
		if old, ok := w.renamed[top]; ok {
			return old + strings.TrimPrefix(w.rawName(fn), w.rawName(top))
		}
	}
	return w.rawName(fn)
}

func (w *World) rawName(fn *ssa.Function) string {
	if fn == nil {
		return "<nil>"
	}
	if w.ours(fn) {
		s := fn.RelString(w.SSAPkg.Pkg)
		s = strings.ReplaceAll(s, "(*", "")
		s = strings.ReplaceAll(s, ")", "")
		s = strings.ReplaceAll(s, "(", "")
		return s
	}
	return fn.String()
}

// baseName strips type arguments: "sendWithContext[error]" -> "sendWithContext".
func baseName(s string) string {
	if i := strings.Index(s, "["); i >= 0 {
		j := strings.LastIndex(s, "]")
		if j > i {
			return s[:i] + s[j+1:]
		}
	}
	return s
}

func (w *World) fn(name string) *ssa.Function { return w.byName[name] }

// fnsByBase returns every function (incl. generic instances) whose base name matches.
func (w *World) fnsByBase(name string) []*ssa.Function {
	var out []*ssa.Function
	for _, f := range w.Funcs {
		if baseName(w.name(f)) == name {
			out = append(out, f)
		}
	}
	return out
}

func (w *World) pos(p token.Pos) string {
	if !p.IsValid() {
		return "-"
	}
	pp := w.Fset.Position(p)
	f := pp.Filename
	if i := strings.LastIndex(f, "/"); i >= 0 {
		f = f[i+1:]
	}
	return fmt.Sprintf("%s:%d", f, pp.Line)
}

// instrPos finds a usable position for an instruction (falls back to
// neighbouring instructions in the block, then the function).
func (w *World) instrPos(in ssa.Instruction) string {
	if in == nil {
		return "-"
	}
	if in.Pos().IsValid() {
		return w.pos(in.Pos())
	}
	if v, ok := in.(ssa.Value); ok {
		_ = v
	}
	b := in.Block()
	idx := -1
	for i, x := range b.Instrs {
		if x == in {
			idx = i
		}
	}
	for d := 1; d < len(b.Instrs); d++ {
		for _, j := range []int{idx - d, idx + d} {
			if j >= 0 && j < len(b.Instrs) && b.Instrs[j].Pos().IsValid() {
				return w.pos(b.Instrs[j].Pos()) + "~"
			}
		}
	}
	return w.pos(in.Parent().Pos()) + "~"
}

// CallGraph builds (once) the VTA call graph refined from CHA.
func (w *World) CallGraph() *callgraph.Graph {
	if w.cg == nil {
		w.cg = vta.CallGraph(ssautil.AllFunctions(w.Prog), cha.CallGraph(w.Prog))
	}
	return w.cg
}

// ---------------------------------------------------------------------------
// Callee identity

// calleeName resolves the target of a call to a stable name:
//   - static callee or closure: its function name (see name), generic instances
//     reported with type arguments ("sendWithContext[error]");
//   - interface method: "<InterfaceType>.<Method>" e.g. "DataStore.CreateFile",
//     "io.WriteCloser.Close", "context.Context.Err";
//   - builtin: "builtin.append";
//   - dynamic call through a function value: "dyn:<access path>".
func (w *World) calleeName(c *ssa.CallCommon) string {
	if c.IsInvoke() {
		return w.typeName(c.Value.Type()) + "." + c.Method.Name()
	}
	if f := c.StaticCallee(); f != nil {
		return w.name(f)
	}
	if b, ok := c.Value.(*ssa.Builtin); ok {
		return "builtin." + b.Name()
	}
	return "dyn:" + w.path(c.Value)
}

func (w *World) staticCallee(c *ssa.CallCommon) *ssa.Function {
	if c.IsInvoke() {
		return nil
	}
	return c.StaticCallee()
}

func (w *World) typeName(t types.Type) string {
	return types.TypeString(t, func(p *types.Package) string {
		if p.Path() == modulePath {
			return ""
		}
		return p.Name()
	})
}

// callOf returns the CallCommon of a call-like instruction (Call, Go, Defer).
func callOf(in ssa.Instruction) *ssa.CallCommon {
	if c, ok := in.(ssa.CallInstruction); ok {
		return c.Common()
	}
	return nil
}

// ---------------------------------------------------------------------------
// Access paths (E3 value provenance, part 1)

// path gives a source-like access path for an SSA value:
//
//	p:b.config.MaxBufferedRows   field chain from a parameter (pointer derefs are implicit, as in Go syntax)
//	p:req.doneChan               also inside closures: free variables are resolved to what they were bound to
//	*p:doneChans                 explicit deref of a pointer parameter
//	local:handleHealthy          a mutable local kept in memory (captured by a closure)
//	call:fmt.Errorf@file:line    result of a call
//	const:true, nil              constants
//	g:ErrEngineStopped           package-level variable (loaded)
//
// Single-store cells (`t0 = new T (x); *t0 = x` — how go/ssa spills captured
// parameters and locals) are forwarded to the stored value.
func (w *World) path(v ssa.Value) string { return w.pathDepth(v, 0) }

func (w *World) pathDepth(v ssa.Value, depth int) string {
	if depth > 40 {
		return "?deep"
	}
	d := depth + 1
	switch x := v.(type) {
	case nil:
		return "?nil"
	case *ssa.Parameter:
		// a helper extracted after the rules were confirmed: its parameters are
		// the arguments of its single call site (see absorb.go)
		if a, ok := w.paramCtx[x]; ok && d < 40 {
			return w.pathDepth(a, d+1)
		}
		if c := w.uniqueCallSite(x.Parent()); c != nil && d < 40 {
			for i, p := range x.Parent().Params {
				if p == x && i < len(c.Call.Args) {
					return w.pathDepth(c.Call.Args[i], d+1)
				}
			}
		}
		return "p:" + w.paramName(x)
	case *ssa.FreeVar:
		if b := freeVarBinding(x); b != nil {
			return w.pathDepth(b, d)
		}
		return "fv:" + x.Name()
	case *ssa.Const:
		if x.IsNil() {
			return "nil"
		}
		if x.Value == nil {
			return "const:zero"
		}
		return "const:" + x.Value.ExactString()
	case *ssa.Global:
		return "&g:" + x.Name()
	case *ssa.Function:
		return "func:" + w.name(x)
	case *ssa.Builtin:
		return "builtin:" + x.Name()
	case *ssa.Alloc:
		if sv := singleStoredValue(x); sv != nil {
			return "&" + w.pathDepth(sv, d)
		}
		name := x.Comment
		if name == "" {
			name = "alloc"
		}
		return "&local:" + name
	case *ssa.FieldAddr:
		return "&" + deref(w.pathDepth(x.X, d)) + "." + fieldName(x.X.Type(), x.Field)
	case *ssa.Field:
		return w.pathDepth(x.X, d) + "." + fieldName(x.X.Type(), x.Field)
	case *ssa.IndexAddr:
		return "&" + deref(w.pathDepth(x.X, d)) + "[" + w.pathDepth(x.Index, d) + "]"
	case *ssa.Index:
		return w.pathDepth(x.X, d) + "[" + w.pathDepth(x.Index, d) + "]"
	case *ssa.Lookup:
		return w.pathDepth(x.X, d) + "[" + w.pathDepth(x.Index, d) + "]"
	case *ssa.UnOp:
		switch x.Op {
		case token.MUL:
			p := w.pathDepth(x.X, d)
			if strings.HasPrefix(p, "&") {
				return p[1:]
			}
			return "*" + p
		case token.ARROW:
			return "<-" + w.pathDepth(x.X, d)
		case token.NOT:
			return "!" + w.pathDepth(x.X, d)
		case token.SUB:
			return "-" + w.pathDepth(x.X, d)
		}
		return x.Op.String() + w.pathDepth(x.X, d)
	case *ssa.ChangeType:
		return w.pathDepth(x.X, d)
	case *ssa.Convert:
		return w.pathDepth(x.X, d)
	case *ssa.MakeInterface:
		return w.pathDepth(x.X, d)
	case *ssa.ChangeInterface:
		return w.pathDepth(x.X, d)
	case *ssa.Extract:
		if c, ok := x.Tuple.(*ssa.Call); ok {
			if v := w.absorbedResult(c, x.Index); v != nil {
				return w.pathDepth(v, d)
			}
		}
		return w.pathDepth(x.Tuple, d) + "#" + fmt.Sprint(x.Index)
	case *ssa.Call:
		if v := w.absorbedResult(x, 0); v != nil && x.Call.Signature().Results().Len() == 1 {
			return w.pathDepth(v, d)
		}
		return "call:" + w.calleeName(&x.Call) + "@" + w.instrPos(x)
	case *ssa.MakeClosure:
		return "func:" + w.name(x.Fn.(*ssa.Function))
	case *ssa.Phi:
		if w.phiBusy == nil {
			w.phiBusy = map[*ssa.Phi]bool{}
		}
		if w.phiBusy[x] {
			return "phi:" + x.Comment + "#" + x.Name()
		}
		w.phiBusy[x] = true
		defer delete(w.phiBusy, x)
		set := map[string]bool{}
		for _, e := range x.Edges {
			if e == x {
				continue
			}
			set[w.pathDepth(e, d+4)] = true
		}
		var keys []string
		for k := range set {
			keys = append(keys, k)
		}
		sort.Strings(keys)
		if len(keys) == 1 {
			return keys[0]
		}
		return "phi(" + strings.Join(keys, "|") + ")"
	case *ssa.BinOp:
		return "(" + w.pathDepth(x.X, d) + " " + x.Op.String() + " " + w.pathDepth(x.Y, d) + ")"
	case *ssa.Slice:
		return w.pathDepth(x.X, d) + "[:]"
	case *ssa.TypeAssert:
		return w.pathDepth(x.X, d) + ".(" + w.typeName(x.AssertedType) + ")"
	case *ssa.MakeChan:
		return "makechan@" + w.instrPos(x)
	case *ssa.MakeMap:
		return "makemap@" + w.instrPos(x)
	case *ssa.MakeSlice:
		return "makeslice@" + w.instrPos(x)
	case *ssa.Select:
		return "select@" + w.instrPos(x)
	case *ssa.Range:
		return "range(" + w.pathDepth(x.X, d) + ")"
	case *ssa.Next:
		return "next(" + w.pathDepth(x.Iter, d) + ")"
	}
	return "?" + fmt.Sprintf("%T", v)
}

func deref(p string) string {
	if strings.HasPrefix(p, "&") {
		return p[1:]
	}
	return p
}

func fieldName(t types.Type, idx int) string {
	if p, ok := t.Underlying().(*types.Pointer); ok {
		t = p.Elem()
	}
	if s, ok := t.Underlying().(*types.Struct); ok && idx < s.NumFields() {
		// a field renamed in place (same struct, same position, same type) keeps
		// the name the rules know
		if named, isNamed := t.(*types.Named); isNamed && theWorld != nil && named.Obj().Pkg() != nil && named.Obj().Pkg().Path() == modulePath {
			if base, ok := baselineFields[named.Obj().Name()]; ok && len(base) == s.NumFields() {
				same := true
				for i := 0; i < s.NumFields(); i++ {
					bn, bt, _ := strings.Cut(base[i], ":")
					_ = bn
					if theWorld.typeName(s.Field(i).Type()) != bt {
						same = false
					}
				}
				if same {
					bn, _, _ := strings.Cut(base[idx], ":")
					return bn
				}
			}
		}
		return s.Field(idx).Name()
	}
	return fmt.Sprintf("#%d", idx)
}

// paramName: the name the confirmed tree gave the parameter at this position
// (when the function still has the same number of parameters), else its own.
func (w *World) paramName(x *ssa.Parameter) string {
	fn := x.Parent()
	if fn == nil || fn.Parent() != nil {
		return x.Name()
	}
	base, ok := baselineParams[w.name(fn)]
	if !ok || len(base) != len(fn.Params) {
		return x.Name()
	}
	for i, p := range fn.Params {
		if p == x {
			return base[i]
		}
	}
	return x.Name()
}

// structFieldOf reports the owning struct's name and field name when v is a
// field address, a field value, or a load of a field address.
func (w *World) structFieldOf(v ssa.Value) (owner, field string, base ssa.Value, ok bool) {
	switch x := v.(type) {
	case *ssa.UnOp:
		if x.Op == token.MUL {
			return w.structFieldOf(x.X)
		}
	case *ssa.FieldAddr:
		t := x.X.Type()
		if p, isPtr := t.Underlying().(*types.Pointer); isPtr {
			t = p.Elem()
		}
		return w.typeName(t), fieldName(x.X.Type(), x.Field), x.X, true
	case *ssa.Field:
		return w.typeName(x.X.Type()), fieldName(x.X.Type(), x.Field), x.X, true
	case *ssa.ChangeType:
		return w.structFieldOf(x.X)
	}
	return "", "", nil, false
}

// freeVarBinding resolves a closure's free variable to the value bound at the
// (unique) MakeClosure site in its parent.
func freeVarBinding(fv *ssa.FreeVar) ssa.Value {
	fn := fv.Parent()
	parent := fn.Parent()
	if parent == nil {
		return nil
	}
	idx := -1
	for i, f := range fn.FreeVars {
		if f == fv {
			idx = i
		}
	}
	if idx < 0 {
		return nil
	}
	var found ssa.Value
	n := 0
	for _, b := range parent.Blocks {
		for _, in := range b.Instrs {
			if mc, ok := in.(*ssa.MakeClosure); ok && mc.Fn == fn {
				n++
				if idx < len(mc.Bindings) {
					found = mc.Bindings[idx]
				}
			}
		}
	}
	if n == 1 {
		return found
	}
	return nil
}

// singleStoredValue returns V when the only write to alloc a is one
// `*a = V` (every other use reads it, takes a field address, or captures it).
func singleStoredValue(a *ssa.Alloc) ssa.Value {
	var stored ssa.Value
	n := 0
	ok := true
	var visit func(refs *[]ssa.Instruction, self ssa.Value)
	visit = func(refs *[]ssa.Instruction, self ssa.Value) {
		if refs == nil {
			return
		}
		for _, r := range *refs {
			switch x := r.(type) {
			case *ssa.Store:
				if x.Addr == self {
					n++
					stored = x.Val
				}
			case *ssa.MakeClosure:
				// captured by reference: look for stores inside the closure
				fn := x.Fn.(*ssa.Function)
				for i, bnd := range x.Bindings {
					if bnd == self && i < len(fn.FreeVars) {
						fv := fn.FreeVars[i]
						visit(fv.Referrers(), fv)
					}
				}
			case *ssa.UnOp, *ssa.FieldAddr, *ssa.IndexAddr, *ssa.DebugRef:
			case *ssa.Call, *ssa.Defer, *ssa.Go:
				// address escapes as an argument: may be written elsewhere
				ok = false
			default:
			}
		}
	}
	visit(a.Referrers(), a)
	if ok && n == 1 {
		// the one store must be the initialising one: in the allocating function it
		// dominates every load, and it does not read the cell it writes (x = x + 1)
		var storeInstr *ssa.Store
		for _, r := range *a.Referrers() {
			if st, isSt := r.(*ssa.Store); isSt && st.Addr == ssa.Value(a) {
				storeInstr = st
			}
		}
		if storeInstr == nil {
			return nil // the single store lives in a closure: a mutable captured variable
		}
		for _, r := range *a.Referrers() {
			if ld, isLd := r.(*ssa.UnOp); isLd {
				if !storeInstr.Block().Dominates(ld.Block()) {
					return nil
				}
				if ld.Block() == storeInstr.Block() {
					for _, in := range ld.Block().Instrs {
						if in == ssa.Instruction(ld) {
							return nil // load before the store in the same block
						}
						if in == ssa.Instruction(storeInstr) {
							break
						}
					}
				}
			}
		}
		return stored
	}
	return nil
}

// leaves returns the set of leaf access paths a value is computed from,
// looking through arithmetic, conversions, phis, extracts and len/cap/min/max.
func (w *World) leaves(v ssa.Value) map[string]bool {
	out := map[string]bool{}
	seen := map[ssa.Value]bool{}
	var rec func(v ssa.Value, depth int)
	rec = func(v ssa.Value, depth int) {
		if v == nil || seen[v] || depth > 30 {
			return
		}
		seen[v] = true
		switch x := v.(type) {
		case *ssa.BinOp:
			rec(x.X, depth+1)
			rec(x.Y, depth+1)
		case *ssa.Phi:
			for _, e := range x.Edges {
				rec(e, depth+1)
			}
		case *ssa.Convert:
			rec(x.X, depth+1)
		case *ssa.ChangeType:
			rec(x.X, depth+1)
		case *ssa.MakeInterface:
			rec(x.X, depth+1)
		case *ssa.Call:
			if b, ok := x.Call.Value.(*ssa.Builtin); ok {
				switch b.Name() {
				case "len", "cap", "min", "max":
					out[b.Name()+"("+w.path(x.Call.Args[0])+")"] = true
					if b.Name() == "min" || b.Name() == "max" {
						for _, a := range x.Call.Args {
							rec(a, depth+1)
						}
					}
					return
				}
			}
			out[w.path(v)] = true
		case *ssa.UnOp:
			if x.Op == token.MUL {
				if a, ok := x.X.(*ssa.Alloc); ok {
					if sv := singleStoredValue(a); sv != nil {
						rec(sv, depth+1)
						return
					}
				}
				out[w.path(v)] = true
				return
			}
			rec(x.X, depth+1)
		default:
			out[w.path(v)] = true
		}
	}
	rec(v, 0)
	return out
}

func sortedKeys(m map[string]bool) []string {
	var ks []string
	for k := range m {
		ks = append(ks, k)
	}
	sort.Strings(ks)
	return ks
}
