package main

import (
	"fmt"
	"go/constant"
	"go/token"
	"go/types"
	"sort"
	"strings"

	"golang.org/x/tools/go/ssa"
)

// C04 — prefilters never prune a block holding a row that satisfies them.

func init() { register("C04", checkC04) }

func checkC04(w *World, r *Report, tier string) propMeta {
	c04R1(w, r)
	nOrders := c04R2(w, r)
	c04R3(w, r)
	c04R4(w, r)
	c02R4(w, r, "C04.R5")
	c02R7(w, r, "C04.R6") // prefiltering never rewrites stored block lists: a later prefilter would not reach a block whose metadata satisfies it
	return propMeta{
		explanation: fmt.Sprintf("(R1) kind-exhaustive numeric classification: the functions reachable from ConvertToMinMaxInt64/ConvertToInt64 dispatch on reflect.Kind for every integer, unsigned and float kind with a non-rejecting branch, so values of named numeric types are indexed (the repaired defect D1). (R2) order-domain abstract interpretation: EvaluateMinMaxCondition touches its numeric inputs only through comparisons, so it is interpreted over every total preorder of {⊥=MinInt64, Min, Max, ⊤=MaxInt64, operands, the row's true value v (allowed beyond the int64 range)} consistent with how ranges are built (Min ≤ clamp(v) ≤ Max); whenever v satisfies the operator the function must return true — %d (operator, ordering) cases, exhaustive for that domain; the same engine checks EvaluateStringCondition and EvaluateNumericCondition equal the operator's meaning, UpdateMinMaxIndex = (min, max) and clampUint64ToInt64 = min(v, ⊤). (R3) every overflow-capable conversion to int64 in the minmax call tree is dominated by range guards, NaN is rejected before Floor/Ceil/Round, Min receives Floor and Max receives Ceil. (R4) wiring: merged ranges are unions (C11.R3), ingest wiring (C18.R5), bucketing by key set (C12.R2). (R5) the strict prefilter table and And/Or combination (C02.R4).", nOrders),
		notDecided:  "clampFloatToInt64's float boundary arithmetic at 2^63 beyond the presence and direction of its guards; float rounding of values above 2^53.",
	}
}

func reflectKinds(w *World) map[int64]string {
	out := map[int64]string{}
	var rp *types.Package
	for _, p := range w.Pkg.Imports {
		if p.PkgPath == "reflect" {
			rp = p.Types
		}
	}
	if rp == nil {
		return out
	}
	for _, n := range []string{"Int", "Int8", "Int16", "Int32", "Int64", "Uint", "Uint8", "Uint16", "Uint32", "Uint64", "Uintptr", "Float32", "Float64"} {
		if c, ok := rp.Scope().Lookup(n).(*types.Const); ok {
			if v, ok := constant.Int64Val(c.Val()); ok {
				out[v] = n
			}
		}
	}
	return out
}

func c04R1(w *World, r *Report) {
	const rule = "C04.R1"
	r.rule(rule, "kind-exhaustive numeric classification: for each entry point, every integer/unsigned/float reflect.Kind is dispatched to a non-rejecting branch somewhere in its call tree (a type switch over concrete types alone misses named numeric types)", 26)
	kinds := reflectKinds(w)
	if len(kinds) != 13 {
		r.undecided(rule, "reflect-kinds", "-", "package reflect is not imported: no Kind-based classification can exist, so named numeric types (time.Duration, type Celsius float64, uintptr) are classified not-numeric, never minmax-indexed, and a minmax prefilter prunes the block holding them")
		for _, entry := range []string{"ConvertToMinMaxInt64", "ConvertToInt64"} {
			for _, k := range sortedKindNames(kinds) {
				r.bad(rule, entry+":kind:"+k, "-", "kind not classified")
			}
		}
		return
	}
	for _, entry := range []string{"ConvertToMinMaxInt64", "ConvertToInt64"} {
		fn := fnOrUndecided(w, r, rule, entry)
		if fn == nil {
			continue
		}
		region := w.reachableFuncs(false, fn)
		covered := map[string]string{}
		for f := range region {
			eachInstr(f, func(in ssa.Instruction) {
				b, ok := in.(*ssa.BinOp)
				if !ok || b.Op != token.EQL {
					return
				}
				call, isCall := b.X.(*ssa.Call)
				k, isConst := b.Y.(*ssa.Const)
				if !isCall || !isConst || w.calleeName(&call.Call) != "(reflect.Value).Kind" || k.Value == nil {
					return
				}
				kv, _ := constant.Int64Val(k.Value)
				name, ok := kinds[kv]
				if !ok {
					return
				}
				for _, ref := range *b.Referrers() {
					ifi, ok := ref.(*ssa.If)
					if !ok {
						continue
					}
					tb := ifi.Block().Succs[0]
					// the accepting branch must not be an immediate "not numeric" return
					rejects := false
					if len(tb.Instrs) > 0 {
						if ret, ok := tb.Instrs[len(tb.Instrs)-1].(*ssa.Return); ok && len(ret.Results) > 0 {
							if bv, isC := constBool(ret.Results[len(ret.Results)-1]); isC && !bv {
								rejects = true
							}
						}
					}
					if !rejects {
						covered[name] = w.instrPos(b)
					}
				}
			})
		}
		for _, name := range sortedKindNames(kinds) {
			pos, ok := covered[name]
			r.check(ok, rule, entry+":kind:"+name, w.pos(fn.Pos())+map[bool]string{true: " via " + pos, false: ""}[ok], "reflect."+name+" dispatched to an accepting branch", "a value whose kind is reflect."+name+" but whose type is a named type (e.g. time.Duration, type Celsius float64) falls through to 'not numeric': it is never indexed and a minmax prefilter prunes the block that holds it")
		}
	}
}

func sortedKindNames(k map[int64]string) []string {
	if len(k) == 0 {
		return []string{"Int", "Int8", "Int16", "Int32", "Int64", "Uint", "Uint8", "Uint16", "Uint32", "Uint64", "Uintptr", "Float32", "Float64"}
	}
	var out []string
	for _, n := range k {
		out = append(out, n)
	}
	sort.Strings(out)
	return out
}

// ---------------------------------------------------------------------------
// R2: order-domain abstract interpretation

type opSpec struct {
	constName string
	operands  int // number of operand symbols
	// sat reports whether true value v satisfies the operator given cmp(v, operand_i).
	sat func(cmpV []int, o rankOracle, ops []int) bool
}

func numericOps() []opSpec {
	return []opSpec{
		{"OpEqual", 1, func(c []int, _ rankOracle, _ []int) bool { return c[0] == 0 }},
		{"OpNotEqual", 1, func(c []int, _ rankOracle, _ []int) bool { return c[0] != 0 }},
		{"OpGreaterThan", 1, func(c []int, _ rankOracle, _ []int) bool { return c[0] > 0 }},
		{"OpGreaterThanEqual", 1, func(c []int, _ rankOracle, _ []int) bool { return c[0] >= 0 }},
		{"OpLessThan", 1, func(c []int, _ rankOracle, _ []int) bool { return c[0] < 0 }},
		{"OpLessThanEqual", 1, func(c []int, _ rankOracle, _ []int) bool { return c[0] <= 0 }},
		{"OpIn", 0, func(c []int, _ rankOracle, _ []int) bool { return false }},
		{"OpIn", 1, func(c []int, _ rankOracle, _ []int) bool { return c[0] == 0 }},
		{"OpIn", 2, func(c []int, _ rankOracle, _ []int) bool { return c[0] == 0 || c[1] == 0 }},
		{"OpNotIn", 0, func(c []int, _ rankOracle, _ []int) bool { return true }},
		{"OpNotIn", 1, func(c []int, _ rankOracle, _ []int) bool { return c[0] != 0 }},
		{"OpNotIn", 2, func(c []int, _ rankOracle, _ []int) bool { return c[0] != 0 && c[1] != 0 }},
		{"OpBetween", 2, func(c []int, _ rankOracle, _ []int) bool { return c[0] >= 0 && c[1] <= 0 }},
		{"OpNotBetween", 2, func(c []int, _ rankOracle, _ []int) bool { return c[0] < 0 || c[1] > 0 }},
	}
}

// conditionFor builds the abstract NumericCondition / StringCondition.
func conditionFor(w *World, typeName string, op AVal, spec opSpec, ops []AVal) AVal {
	f := map[string]AVal{"Operator": op}
	switch spec.constName {
	case "OpIn", "OpNotIn":
		f["Values"] = sliceOf(ops...)
	case "OpBetween", "OpNotBetween":
		f["Min"], f["Max"] = ops[0], ops[1]
	default:
		f["Value"] = ops[0]
	}
	// unused operand slots get distinct "poison" symbols so that reading them is visible
	for _, name := range []string{"Value", "Min", "Max"} {
		if _, ok := f[name]; !ok {
			f[name] = aSymbol(900)
		}
	}
	if _, ok := f["Values"]; !ok {
		f["Values"] = AVal{k: aNil}
	}
	return w.objOf(typeName, f)
}

func c04R2(w *World, r *Report) int {
	const rule = "C04.R2"
	r.rule(rule, "range test is a superset test for every ordering: abstract interpretation of EvaluateMinMaxCondition over all total preorders of {⊥, Min, Max, ⊤, operands, v}; exactness of EvaluateStringCondition/EvaluateNumericCondition; UpdateMinMaxIndex = (min,max); clampUint64ToInt64 = min(v,⊤)", 40)
	total := 0
	fn := fnOrUndecided(w, r, rule, "EvaluateMinMaxCondition")
	if fn != nil {
		const (
			sMin = 1
			sMax = 2
			sV   = 3
		)
		for _, spec := range numericOps() {
			op, ok := w.pkgConst(spec.constName)
			if !ok {
				r.undecided(rule, "EvaluateMinMaxCondition:"+spec.constName, "-", "operator constant not found")
				continue
			}
			// symbols: ⊥, ⊤, Min, Max, v, operands
			ids := []int{symBot, symTop, sMin, sMax, sV}
			var opIDs []int
			var opVals []AVal
			for i := 0; i < spec.operands; i++ {
				ids = append(ids, 10+i)
				opIDs = append(opIDs, 10+i)
				opVals = append(opVals, aSymbol(10+i))
			}
			checked, bad, aborted := 0, "", ""
			weakOrders(len(ids), func(rank []int) {
				if bad != "" || aborted != "" {
					return
				}
				o := rankOracle{rank: map[int]int{900: 0}}
				for i, id := range ids {
					o.rank[id] = rank[i]
				}
				// consistency: ⊥ < ⊤; int64-valued symbols within [⊥, ⊤]
				if o.Cmp(symBot, symTop) >= 0 {
					return
				}
				for _, id := range append([]int{sMin, sMax}, opIDs...) {
					if o.Cmp(id, symBot) < 0 || o.Cmp(id, symTop) > 0 {
						return
					}
				}
				// the range was built from values including v: Min ≤ clamp(v) ≤ Max
				switch {
				case o.Cmp(sV, symTop) > 0:
					if o.Cmp(sMax, symTop) != 0 {
						return
					}
				case o.Cmp(sV, symBot) < 0:
					if o.Cmp(sMin, symBot) != 0 {
						return
					}
				default:
					if o.Cmp(sMin, sV) > 0 || o.Cmp(sMax, sV) < 0 {
						return
					}
				}
				if o.Cmp(sMin, sMax) > 0 {
					return
				}
				var cmpV []int
				for _, id := range opIDs {
					cmpV = append(cmpV, o.Cmp(sV, id))
				}
				if !spec.sat(cmpV, o, opIDs) {
					return
				}
				checked++
				in := &interp{w: w, or: o}
				res, ab := in.run(fn, []AVal{
					w.objOf("MinMaxIndex", map[string]AVal{"Min": aSymbol(sMin), "Max": aSymbol(sMax)}),
					conditionFor(w, "NumericCondition", op, spec, opVals),
				})
				if ab != "" {
					aborted = ab
					return
				}
				if b, ok := res[0].isBool(); !ok || !b {
					bad = describeOrder(ids, rank)
				}
			})
			total += checked
			key := fmt.Sprintf("EvaluateMinMaxCondition:%s/%d-operands", spec.constName, spec.operands)
			switch {
			case aborted != "":
				r.undecided(rule, key, w.pos(fn.Pos()), "the function is no longer comparison-only on its numeric inputs, so the order abstraction does not apply: "+aborted)
			case bad != "":
				r.bad(rule, key, w.pos(fn.Pos()), "a block whose range was built from a value v satisfying the condition is pruned under the ordering "+bad)
			default:
				r.ok(rule, key, w.pos(fn.Pos()), fmt.Sprintf("returns true for all %d consistent orderings in which v satisfies the condition", checked))
			}
		}
	}
	// exactness of the scalar evaluators
	for _, ev := range []struct{ fn, cond string }{{"EvaluateStringCondition", "StringCondition"}, {"EvaluateNumericCondition", "NumericCondition"}} {
		f := fnOrUndecided(w, r, rule, ev.fn)
		if f == nil {
			continue
		}
		for _, spec := range numericOps() {
			op, ok := w.pkgConst(spec.constName)
			if !ok {
				continue
			}
			ids := []int{3}
			var opIDs []int
			var opVals []AVal
			for i := 0; i < spec.operands; i++ {
				ids = append(ids, 10+i)
				opIDs = append(opIDs, 10+i)
				opVals = append(opVals, aSymbol(10+i))
			}
			checked, bad, aborted := 0, "", ""
			weakOrders(len(ids), func(rank []int) {
				if bad != "" || aborted != "" {
					return
				}
				o := rankOracle{rank: map[int]int{900: 50, symBot: -100, symTop: 100}}
				for i, id := range ids {
					o.rank[id] = rank[i]
				}
				var cmpV []int
				for _, id := range opIDs {
					cmpV = append(cmpV, o.Cmp(3, id))
				}
				want := spec.sat(cmpV, o, opIDs)
				checked++
				in := &interp{w: w, or: o}
				res, ab := in.run(f, []AVal{aSymbol(3), conditionFor(w, ev.cond, op, spec, opVals)})
				if ab != "" {
					aborted = ab
					return
				}
				if b, ok := res[0].isBool(); !ok || b != want {
					bad = fmt.Sprintf("%s (want %v)", describeOrder(ids, rank), want)
				}
			})
			total += checked
			key := fmt.Sprintf("%s:%s/%d-operands", ev.fn, spec.constName, spec.operands)
			switch {
			case aborted != "":
				r.undecided(rule, key, w.pos(f.Pos()), "not comparison-only: "+aborted)
			case bad != "":
				r.bad(rule, key, w.pos(f.Pos()), "result differs from the operator's meaning under the ordering "+bad)
			default:
				r.ok(rule, key, w.pos(f.Pos()), fmt.Sprintf("equals the operator's meaning on all %d orderings", checked))
			}
		}
	}
	total += updateMinMaxTable(w, r, rule)
	if f := fnOrUndecided(w, r, rule, "clampUint64ToInt64"); f != nil {
		bad, aborted := "", ""
		for _, c := range []int{-1, 0, 1} {
			o := rankOracle{rank: map[int]int{symBot: 0, symTop: 10, 3: 10 + c}}
			in := &interp{w: w, or: o}
			in.onConv = func(x *ssa.Convert, v AVal) string {
				if o.Cmp(v.sym, symTop) > 0 {
					return "converts a value above MaxInt64 to int64 at " + w.instrPos(x)
				}
				return ""
			}
			res, ab := in.run(f, []AVal{aSymbol(3)})
			total++
			if ab != "" {
				aborted = ab
				break
			}
			want := 3
			if c > 0 {
				want = symTop
			}
			if len(in.notes) > 0 {
				bad = in.notes[0]
			} else if res[0].k != aSym || o.Cmp(res[0].sym, want) != 0 {
				bad = fmt.Sprintf("v %s MaxInt64 yields %s", map[int]string{-1: "<", 0: "==", 1: ">"}[c], res[0].String())
			}
		}
		switch {
		case aborted != "":
			r.undecided(rule, "clampUint64ToInt64", w.pos(f.Pos()), aborted)
		case bad != "":
			r.bad(rule, "clampUint64ToInt64", w.pos(f.Pos()), "not min(v, MaxInt64): "+bad+" — a huge unsigned value would wrap negative and narrow the range")
		default:
			r.ok(rule, "clampUint64ToInt64", w.pos(f.Pos()), "min(v, ⊤) for v <, ==, > ⊤")
		}
	}
	return total
}

func describeOrder(ids []int, rank []int) string {
	name := func(id int) string {
		switch id {
		case symBot:
			return "⊥"
		case symTop:
			return "⊤"
		case 1:
			return "Min"
		case 2:
			return "Max"
		case 3:
			return "v"
		case 4:
			return "s4"
		}
		return fmt.Sprintf("operand%d", id-10)
	}
	type pr struct {
		n string
		r int
	}
	var ps []pr
	for i, id := range ids {
		ps = append(ps, pr{name(id), rank[i]})
	}
	sort.Slice(ps, func(i, j int) bool {
		if ps[i].r != ps[j].r {
			return ps[i].r < ps[j].r
		}
		return ps[i].n < ps[j].n
	})
	var sb strings.Builder
	for i, p := range ps {
		if i > 0 {
			if ps[i-1].r == p.r {
				sb.WriteString(" = ")
			} else {
				sb.WriteString(" < ")
			}
		}
		sb.WriteString(p.n)
	}
	return sb.String()
}

// ---------------------------------------------------------------------------

func c04R3(w *World, r *Report) {
	const rule = "C04.R3"
	r.rule(rule, "every overflow-capable conversion to int64 in the minmax call tree is dominated by guards against the int64 bounds; NaN is rejected before Floor/Ceil/Round; Min receives Floor and Max receives Ceil", 5)
	var roots []*ssa.Function
	for _, n := range []string{"ConvertToMinMaxInt64", "ConvertToInt64"} {
		if f := w.fn(n); f != nil {
			roots = append(roots, f)
		}
	}
	region := w.reachableFuncs(false, roots...)
	nConv := 0
	for _, name := range w.funcNames(region) {
		fn := w.fn(name)
		eachInstr(fn, func(in ssa.Instruction) {
			cv, ok := in.(*ssa.Convert)
			if !ok {
				return
			}
			dst, ok1 := cv.Type().Underlying().(*types.Basic)
			src, ok2 := cv.X.Type().Underlying().(*types.Basic)
			if !ok1 || !ok2 || dst.Kind() != types.Int64 {
				return
			}
			needUpper, needLower := false, false
			switch src.Kind() {
			case types.Uint, types.Uint64, types.Uintptr:
				needUpper = true
			case types.Float32, types.Float64:
				needUpper, needLower = true, true
			default:
				return
			}
			nConv++
			upper, lower := false, false
			loose := ""
			// guards: an If on a comparison of cv.X with a constant bound, on the
			// edge that dominates the conversion; the accepted side v REL c must lie
			// inside the int64 range exactly: v < c needs c ≤ 2^63, v ≤ c needs
			// c < 2^63 (c ≤ MaxInt64 for integers), v > c / v ≥ c need c ≥ −2^63
			two63 := constant.Shift(constant.MakeInt64(1), token.SHL, 63)
			minus63 := constant.UnaryOp(token.SUB, two63, 0)
			if refs := cv.X.Referrers(); refs != nil {
				for _, ref := range *refs {
					b, ok := ref.(*ssa.BinOp)
					if !ok || (b.X != cv.X && b.Y != cv.X) {
						continue
					}
					op := b.Op
					var bound ssa.Value = b.Y
					if b.Y == cv.X { // c REL v  ≡  v REL' c
						bound = b.X
						switch op {
						case token.LSS:
							op = token.GTR
						case token.LEQ:
							op = token.GEQ
						case token.GTR:
							op = token.LSS
						case token.GEQ:
							op = token.LEQ
						}
					}
					kc, isC := bound.(*ssa.Const)
					for _, r2 := range *b.Referrers() {
						ifi, ok := r2.(*ssa.If)
						if !ok {
							continue
						}
						taken := -1
						for si, sb := range ifi.Block().Succs {
							if (sb == cv.Block() || sb.Dominates(cv.Block())) && len(sb.Preds) == 1 {
								taken = si
							}
						}
						if taken < 0 {
							continue
						}
						rel := op
						if taken == 1 { // the comparison is false on the way to the conversion
							switch op {
							case token.GTR:
								rel = token.LEQ
							case token.GEQ:
								rel = token.LSS
							case token.LSS:
								rel = token.GEQ
							case token.LEQ:
								rel = token.GTR
							default:
								continue
							}
						}
						if !isC || kc.Value == nil {
							// a non-constant bound: direction only
							switch rel {
							case token.LSS, token.LEQ:
								upper = true
							case token.GTR, token.GEQ:
								lower = true
							}
							continue
						}
						c := constant.ToFloat(kc.Value)
						switch rel {
						case token.LSS: // v < c
							if constant.Compare(c, token.LEQ, two63) {
								upper = true
							} else {
								loose = "v < " + kc.Value.ExactString() + " admits values ≥ 2^63"
							}
						case token.LEQ: // v ≤ c
							if constant.Compare(c, token.LSS, two63) {
								upper = true
							} else {
								loose = "v ≤ " + kc.Value.ExactString() + " admits 2^63 itself, which is not an int64"
							}
						case token.GTR, token.GEQ:
							if constant.Compare(c, token.GEQ, minus63) {
								lower = true
							} else {
								loose = "lower bound " + kc.Value.ExactString() + " admits values below −2^63"
							}
						}
					}
				}
			}
			if loose != "" && !(upper && (lower || !needLower)) {
				loose = " (" + loose + ")"
			} else {
				loose = ""
			}
			okc := (!needUpper || upper) && (!needLower || lower)
			r.check(okc, rule, fmt.Sprintf("%s:convert(%s→int64)", name, src.Name()), w.instrPos(cv), "conversion behind range guards", fmt.Sprintf("an %s is converted to int64 without a dominating guard that keeps it inside the int64 range (upper=%v lower=%v)%s: out-of-range values wrap (implementation-defined for floats — 2^63 becomes MinInt64 on amd64) and the block's range no longer covers the row", src.Name(), upper, lower, loose))
		})
	}
	if nConv == 0 {
		r.undecided(rule, "conversions", "-", "no overflow-capable conversion found in the minmax call tree: anchors lost")
	}
	// NaN before rounding
	for _, name := range w.funcNames(region) {
		fn := w.fn(name)
		sites := w.callSitesIn(fn, "math.Floor", "math.Ceil", "math.Round")
		if len(sites) == 0 {
			continue
		}
		fl := newFlow(w, fn, &Classifier{CallEdge: func(call ssa.Value, outcome string) *Event {
			if c, ok := call.(*ssa.Call); ok && w.calleeName(&c.Call) == "math.IsNaN" && outcome == "false" {
				return ev("notNaN")
			}
			return nil
		}})
		for _, in := range sites {
			r.check(fl.Before(in).Must("notNaN"), rule, name+":"+w.calleeName(callOf(in))+"-after-NaN-check", w.instrPos(in), "NaN rejected first", "a NaN can reach the rounding/conversion: int64(NaN) is implementation-defined and would be indexed as a real bound")
		}
	}
	if fn := fnOrUndecided(w, r, rule, "floatToMinMaxInt64"); fn != nil {
		okc := false
		for _, ret := range newFlow(w, fn, &Classifier{}).Returns() {
			if b, isC := constBool(retOperand(ret, 2)); !isC || !b {
				continue
			}
			lo, hi := retOperand(ret, 0), retOperand(ret, 1)
			fromCall := func(v ssa.Value, name string) bool {
				c, ok := v.(*ssa.Call)
				if !ok || len(c.Call.Args) != 1 {
					return false
				}
				a, ok := c.Call.Args[0].(*ssa.Call)
				return ok && w.calleeName(&a.Call) == name && w.calleeName(&c.Call) == "clampFloatToInt64"
			}
			okc = fromCall(lo, "math.Floor") && fromCall(hi, "math.Ceil")
		}
		r.check(okc, rule, "floatToMinMaxInt64:(floor,ceil)", w.pos(fn.Pos()), "Min = clamp(Floor(v)), Max = clamp(Ceil(v))", "a float's range is not [Floor(v), Ceil(v)]: a non-integer value falls outside its own block's range")
	}
}

func c04R4(w *World, r *Report) {
	const rule = "C04.R4"
	r.rule(rule, "ConvertToMinMaxInt64 returns the converted integer as both bounds for integers; the value indexed at ingest is the original Go value row[index] (see C18.R5), merged ranges are unions (C11.R3), blocks with different key sets never merge (C12.R2)", 1)
	fn := fnOrUndecided(w, r, rule, "ConvertToMinMaxInt64")
	if fn == nil {
		return
	}
	okc, n := true, 0
	for _, ret := range newFlow(w, fn, &Classifier{}).Returns() {
		lo, hi, okv := retOperand(ret, 0), retOperand(ret, 1), retOperand(ret, 2)
		if b, isC := constBool(okv); isC && b {
			n++
			if lo != hi {
				okc = false
			}
		}
	}
	r.check(okc && n > 0, rule, "ConvertToMinMaxInt64:int=(v,v)", w.pos(fn.Pos()), "integers index as (v, v)", "an integer value is not indexed as the degenerate range (v, v)")
}

// updateMinMaxTable: UpdateMinMaxIndex returns (min(existing.Min,newMin),
// max(existing.Max,newMax)) under every ordering of its four inputs. Shared by
// C04, C11 (merged ranges) and C18 (ingest ranges), each under its own rule id.
func updateMinMaxTable(w *World, r *Report, rule string) int {
	checked := 0
	if f := fnOrUndecided(w, r, rule, "UpdateMinMaxIndex"); f != nil {
		ids := []int{1, 2, 3, 4} // existing.Min, existing.Max, newMin, newMax
		bad, aborted := "", ""
		weakOrders(4, func(rank []int) {
			if bad != "" || aborted != "" {
				return
			}
			o := rankOracle{rank: map[int]int{}}
			for i, id := range ids {
				o.rank[id] = rank[i]
			}
			checked++
			in := &interp{w: w, or: o}
			res, ab := in.run(f, []AVal{w.objOf("MinMaxIndex", map[string]AVal{"Min": aSymbol(1), "Max": aSymbol(2)}), aSymbol(3), aSymbol(4)})
			if ab != "" {
				aborted = ab
				return
			}
			gotMin, gotMax := w.fieldOf(res[0], "MinMaxIndex", "Min"), w.fieldOf(res[0], "MinMaxIndex", "Max")
			wantMin, wantMax := 1, 2
			if o.Cmp(3, 1) < 0 {
				wantMin = 3
			}
			if o.Cmp(4, 2) > 0 {
				wantMax = 4
			}
			if gotMin.k != aSym || gotMax.k != aSym || o.Cmp(gotMin.sym, wantMin) != 0 || o.Cmp(gotMax.sym, wantMax) != 0 {
				bad = describeOrder(ids, rank)
			}
		})
		switch {
		case aborted != "":
			r.undecided(rule, "UpdateMinMaxIndex", w.pos(f.Pos()), "not comparison-only: "+aborted)
		case bad != "":
			r.bad(rule, "UpdateMinMaxIndex", w.pos(f.Pos()), "result is not (min(existing.Min,newMin), max(existing.Max,newMax)) under ordering [existing.Min existing.Max newMin newMax] "+bad+": a block's range would not cover one of its rows")
		default:
			r.ok(rule, "UpdateMinMaxIndex", w.pos(f.Pos()), fmt.Sprintf("(min,max) on all %d orderings", checked))
		}
	}
	return checked
}
