package main

// Thorough tier: the same rules, plus
//   (a) the other build configurations (-tags verif, GOARCH=arm64): the
//       property's rules are re-evaluated on each load and any verdict that
//       differs from the default configuration is reported;
//   (b) whole-program pass for C27 over the dependencies (VTA call graph);
//   (c) checker validation, recorded in the evidence but never gating: the
//       seeded variant corpus for this property is applied to scratch copies
//       outside /repo and /verif (removed immediately) — a bad variant must be
//       reported naming its rule, an ok variant must stay silent.

import (
	"encoding/json"
	"fmt"
	"os"
	"os/exec"
	"path/filepath"
	"sort"
	"strings"

	"golang.org/x/tools/go/callgraph"
	"golang.org/x/tools/go/ssa"
)

func thoroughExtras(w *World, r *Report, prop string, extra map[string]any) {
	f := registry[prop]
	// (a) other build configurations
	var cfgs []map[string]any
	// (GOARCH=386 is not a configuration of this package: DefaultBloomSearchEngineConfig's
	// MaxFileSize constant overflows a 32-bit int, so it does not compile there.)
	for _, cfg := range []struct{ tags, arch string }{{"verif", ""}, {"", "arm64"}} {
		w2, err := loadWorld(w.Dir, cfg.tags, cfg.arch)
		entry := map[string]any{"tags": cfg.tags, "goarch": cfg.arch}
		if err != nil {
			entry["error"] = err.Error()
			r.undecided(prop+".config", fmt.Sprintf("load(tags=%q,goarch=%q)", cfg.tags, cfg.arch), "-", "cannot load this build configuration: "+err.Error())
			cfgs = append(cfgs, entry)
			continue
		}
		r2 := newReport(prop, w2)
		func() {
			defer func() {
				if p := recover(); p != nil {
					r2.undecided(prop+".panic", "checker", "-", fmt.Sprint(p))
				}
			}()
			f(w2, r2, "quick")
		}()
		r2.finishFloors()
		known, _ := loadKnown(filepath.Join(verifDir(), "known-findings.json"))
		r2.applyKnown(known)
		nBad := 0
		for _, o := range r2.Obs {
			if o.Verdict == Violation || o.Verdict == Undecided {
				nBad++
				r.add(o.Rule, fmt.Sprintf("[tags=%q goarch=%q] %s", cfg.tags, cfg.arch, o.Construct), o.Site, o.Verdict, o.Detail)
			}
		}
		entry["functions"] = len(w2.Funcs)
		entry["obligations"] = len(r2.Obs)
		entry["violations_or_undecided"] = nBad
		entry["extra_files"] = len(w2.Pkg.GoFiles) - len(w.Pkg.GoFiles)
		cfgs = append(cfgs, entry)
	}
	extra["build_configurations"] = cfgs
	// (b) whole-program C27
	if prop == "C27" {
		extra["dependency_scan"] = c27Dependencies(w, r)
	}
	// (c) checker validation
	extra["variant_matrix"] = runVariantMatrix(prop)
	extra["seeded_matrix"] = runSeededMatrix(prop)
}

func runVariantMatrix(prop string) any {
	tool := filepath.Join(verifDir(), "tools", "variants.py")
	if _, err := os.Stat(tool); err != nil {
		return map[string]any{"skipped": "variants tool not found"}
	}
	tmp, err := os.CreateTemp("", "bsvar-matrix-*.json")
	if err != nil {
		return map[string]any{"skipped": err.Error()}
	}
	tmp.Close()
	defer os.Remove(tmp.Name())
	cmd := exec.Command("python3", tool, "--property", prop, "--jobs", "6", "--json", tmp.Name(), "--nobuild")
	cmd.Env = append(os.Environ(), "BSCHECK_REPO="+repoDir())
	out, _ := cmd.CombinedOutput()
	data, err := os.ReadFile(tmp.Name())
	if err != nil || len(data) == 0 {
		return map[string]any{"error": "no result", "output": tail(string(out), 600)}
	}
	var results []map[string]any
	if err := json.Unmarshal(data, &results); err != nil {
		return map[string]any{"error": err.Error()}
	}
	sum := map[string]int{}
	var rows []map[string]any
	for _, x := range results {
		st, _ := x["status"].(string)
		sum[st]++
		rows = append(rows, map[string]any{"name": x["name"], "kind": x["kind"], "expect": x["expect"], "fired": x["fired"], "status": st})
	}
	return map[string]any{"summary": sum, "variants": rows, "note": "validation of the checker, not of /repo: never gates the verdict"}
}

func tail(s string, n int) string {
	if len(s) > n {
		return s[len(s)-n:]
	}
	return s
}

// c27Dependencies: every function reachable (VTA call graph, constant-false
// branches pruned) from the package's exported API is scanned for references
// to the standard streams.
func c27Dependencies(w *World, r *Report) any {
	const rule = "C27.R1"
	cg := w.CallGraph()
	var roots []*ssa.Function
	for _, fn := range w.Funcs {
		if fn.Parent() != nil {
			continue
		}
		name := fn.Name()
		if fn.Signature.Recv() != nil || (len(name) > 0 && name[0] >= 'A' && name[0] <= 'Z') {
			roots = append(roots, fn)
		}
	}
	seen := map[*ssa.Function]bool{}
	var stack []*ssa.Function
	for _, f := range roots {
		stack = append(stack, f)
	}
	for len(stack) > 0 {
		fn := stack[len(stack)-1]
		stack = stack[:len(stack)-1]
		if fn == nil || seen[fn] {
			continue
		}
		seen[fn] = true
		node := cg.Nodes[fn]
		if node == nil {
			continue
		}
		dead := deadBlocks(fn)
		for _, e := range node.Out {
			if e.Site != nil && dead[e.Site.Block()] {
				continue
			}
			stack = append(stack, e.Callee.Func)
		}
		for _, a := range fn.AnonFuncs {
			stack = append(stack, a)
		}
	}
	type hit struct{ fn, what, pos string }
	var hits []hit
	nDeps := 0
	for fn := range seen {
		if fn.Pkg == nil || len(fn.Blocks) == 0 {
			continue
		}
		path := fn.Pkg.Pkg.Path()
		if path == modulePath {
			continue
		}
		// the standard library's own diagnostics (runtime, testing, log's default logger) are out of scope:
		// only third-party dependencies are scanned, plus any stdlib *caller* of fmt.Print*/log.* reachable from them
		if !strings.Contains(path, ".") {
			continue
		}
		nDeps++
		dead := deadBlocks(fn)
		for _, b := range fn.Blocks {
			if dead[b] {
				continue
			}
			for _, in := range b.Instrs {
				if c := callOf(in); c != nil {
					n := w.calleeName(c)
					if isStdStreamWriter(n) {
						hits = append(hits, hit{fn.String(), n, w.instrPos(in)})
					}
				}
				for _, op := range in.Operands(nil) {
					if g, ok := (*op).(*ssa.Global); ok && g.Pkg != nil && g.Pkg.Pkg.Path() == "os" && (g.Name() == "Stdout" || g.Name() == "Stderr") {
						hits = append(hits, hit{fn.String(), "os." + g.Name(), w.instrPos(in)})
					}
				}
			}
		}
	}
	sort.Slice(hits, func(i, j int) bool { return hits[i].fn < hits[j].fn })
	var rows []map[string]string
	for _, h := range hits {
		rows = append(rows, map[string]string{"function": h.fn, "reference": h.what, "site": h.pos})
		r.bad(rule, "dependency:"+h.fn+":"+h.what, h.pos, "a third-party function reachable from the engine's API references "+h.what+" on a live (non-constant-false) path")
	}
	if len(hits) == 0 {
		r.ok(rule, "dependencies:no-std-stream-writer", "-", fmt.Sprintf("%d reachable third-party functions scanned (of %d reachable functions), none writes to stdout/stderr on a live path", nDeps, len(seen)))
	}
	return map[string]any{"reachable_functions": len(seen), "third_party_functions_scanned": nDeps, "hits": rows}
}

// deadBlocks: blocks reachable only through the impossible edge of a branch on
// a compile-time constant (`if debug { … }` with const debug = false).
func deadBlocks(fn *ssa.Function) map[*ssa.BasicBlock]bool {
	live := map[*ssa.BasicBlock]bool{}
	if len(fn.Blocks) == 0 {
		return nil
	}
	var rec func(b *ssa.BasicBlock)
	rec = func(b *ssa.BasicBlock) {
		if live[b] {
			return
		}
		live[b] = true
		if len(b.Instrs) > 0 {
			if ifi, ok := b.Instrs[len(b.Instrs)-1].(*ssa.If); ok {
				if v, isC := constBool(ifi.Cond); isC {
					if v {
						rec(b.Succs[0])
					} else {
						rec(b.Succs[1])
					}
					return
				}
			}
		}
		for _, s := range b.Succs {
			rec(s)
		}
	}
	rec(fn.Blocks[0])
	if fn.Recover != nil {
		rec(fn.Recover)
	}
	dead := map[*ssa.BasicBlock]bool{}
	for _, b := range fn.Blocks {
		if !live[b] {
			dead[b] = true
		}
	}
	return dead
}

var _ = callgraph.CalleesOf

// runSeededMatrix applies every independently seeded change kept under
// /verif/seeded for this property to a scratch copy of the tree under analysis
// and runs this property's check on it (static part only; the demonstrations
// were run when the change was accepted). Validation of the checker: never
// gates the verdict.
func runSeededMatrix(prop string) any {
	tool := filepath.Join(verifDir(), "tools", "seeded.py")
	if _, err := os.Stat(tool); err != nil {
		return map[string]any{"skipped": "seeded tool not found"}
	}
	tmp, err := os.CreateTemp("", "bsseed-matrix-*.json")
	if err != nil {
		return map[string]any{"skipped": err.Error()}
	}
	tmp.Close()
	defer os.Remove(tmp.Name())
	cmd := exec.Command("python3", tool, "matrix", prop, tmp.Name())
	cmd.Env = append(os.Environ(), "BSCHECK_REPO="+repoDir())
	out, _ := cmd.CombinedOutput()
	data, err := os.ReadFile(tmp.Name())
	if err != nil || len(data) == 0 {
		return map[string]any{"error": "no result", "output": tail(string(out), 600)}
	}
	var rows []map[string]any
	if err := json.Unmarshal(data, &rows); err != nil {
		return map[string]any{"error": err.Error()}
	}
	sum := map[string]int{}
	for _, x := range rows {
		st, _ := x["status"].(string)
		sum[st]++
	}
	return map[string]any{"summary": sum, "changes": rows, "note": "independently seeded property-breaking changes (see DESIGN.md §10); validation of the checker, not of /repo"}
}
