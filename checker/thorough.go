package main

func thoroughExtras(w *World, r *Report, prop string, extra map[string]any) {}
