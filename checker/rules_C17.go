package main

import (
	"fmt"
	"go/constant"
	"go/token"
	"go/types"
	"sort"
	"strings"

	"golang.org/x/tools/go/ssa"
)

// C17 — every written file describes itself truthfully;
// C18 — indexes cover their data at every level.

func init() {
	register("C17", checkC17)
	register("C18", checkC18)
}

func checkC17(w *World, r *Report, tier string) propMeta {
	c17R1(w, r)
	c17R2(w, r)
	c17R3(w, r)
	c03R4(w, r) // entry sets never alias a pooled buffer
	c17R7(w, r)
	c17R8(w, r, "C17.R8")
	c03R8(w, r, "C17.R6") // readers interpret a block's recorded compression the same way
	c03R6(w, r, "C17.R5") // nor do rows handed out by the allocating reader
	c11R4(w, r)           // a copied block keeps the metadata its bytes were written with (struct copy, only location fields rewritten)
	c06R4(w, r)           // entries are indexed only after the whole batch validated: a rejected batch leaves no entry behind
	return propMeta{
		explanation: "Self-description of written files as table agreement and value-identity rules: (R1) fileMetadataJSON mirrors FileMetadata field for field (minus the filters), WriteFileFooter copies each field from the metadata and records the length of the very section it wrote, ReadFileMetadata copies each field back, the filter-section flag bits map to the same filters in the same order in encoder and parser, and every compression the constructor accepts or the writer emits has a decoder case; (R2) in handleFlush and executeMergeGroup the assembly order is block row data → filterRegion.finish → WriteFileFooter → Close, nothing is written to the region or the file body after finish, and the metadata committed is the object the footer was written from; (R3) per block, the bytes written, RowDataSize, the offset increment and the CRC input are one value, RowDataOffset is the running offset before the increment, the region offset is the running offset after the last block, and Rows/UncompressedSize/BloomEntryCounts come from the same buffer or counters as the data.",
		notDecided:  "Byte-level round trips and CRC values (the existing tests exercise these); the contents of third-party encoders.",
	}
}

func structFields(w *World, name string) (map[string]*types.Var, map[string]string, []string) {
	obj := w.Pkg.Types.Scope().Lookup(name)
	if obj == nil {
		return nil, nil, nil
	}
	st, ok := obj.Type().Underlying().(*types.Struct)
	if !ok {
		return nil, nil, nil
	}
	m := map[string]*types.Var{}
	tags := map[string]string{}
	var order []string
	for i := 0; i < st.NumFields(); i++ {
		m[st.Field(i).Name()] = st.Field(i)
		tags[st.Field(i).Name()] = st.Tag(i)
		order = append(order, st.Field(i).Name())
	}
	return m, tags, order
}

// literalOf returns field → stored value for the composite literal of the
// given struct type built in fn.
func literalOf(w *World, fn *ssa.Function, typeName string) map[string]ssa.Value {
	var out map[string]ssa.Value
	eachInstr(fn, func(in ssa.Instruction) {
		a, ok := in.(*ssa.Alloc)
		if !ok || w.typeName(a.Type()) != "*"+typeName {
			return
		}
		m := map[string]ssa.Value{}
		for _, ref := range *a.Referrers() {
			if fa, ok := ref.(*ssa.FieldAddr); ok {
				for _, r2 := range *fa.Referrers() {
					if st, ok := r2.(*ssa.Store); ok && st.Addr == fa {
						m[fieldName(a.Type(), fa.Field)] = st.Val
					}
				}
			}
		}
		// several allocations of the type (the literal and the variable it is
		// assigned to): take the union, the first value seen per field wins
		if out == nil {
			out = m
		} else {
			for k, v := range m {
				if _, ok := out[k]; !ok {
					out[k] = v
				}
			}
		}
	})
	if len(out) == 0 {
		return nil
	}
	return out
}

func c17R1(w *World, r *Report) {
	const rule = "C17.R1"
	r.rule(rule, "writer/reader tables agree: fileMetadataJSON mirrors FileMetadata; WriteFileFooter and ReadFileMetadata copy every shared field; FileFilterSectionSize is the length of the section written; flag bits and compression cases agree between writer and reader", 14)
	fm, fmTags, _ := structFields(w, "FileMetadata")
	fj, fjTags, _ := structFields(w, "fileMetadataJSON")
	if fm == nil || fj == nil {
		r.undecided(rule, "anchor:structs", "-", "FileMetadata/fileMetadataJSON not found")
		return
	}
	var shared []string
	for name, v := range fm {
		if name == "BloomFilters" {
			continue
		}
		j, ok := fj[name]
		okc := ok && types.Identical(v.Type(), j.Type()) && fmTags[name] == fjTags[name]
		r.check(okc, rule, "struct:"+name, w.pos(v.Pos()), "same name, type and tag in fileMetadataJSON", "FileMetadata."+name+" has no identical counterpart in fileMetadataJSON: the field is lost (or re-typed) when a file is written and read back")
		if ok {
			shared = append(shared, name)
		}
	}
	sort.Strings(shared)
	for name := range fj {
		if _, ok := fm[name]; !ok && name != "FileFilterSectionSize" {
			r.bad(rule, "struct:extra:"+name, w.pos(fj[name].Pos()), "fileMetadataJSON."+name+" has no counterpart in FileMetadata")
		}
	}
	if wf := fnOrUndecided(w, r, rule, "WriteFileFooter"); wf != nil {
		lit := literalOf(w, wf, "fileMetadataJSON")
		for _, name := range shared {
			v := lit[name]
			r.check(v != nil && w.path(v) == "p:metadata."+name, rule, "WriteFileFooter:copies:"+name, w.pos(wf.Pos()), "written from metadata."+name, "the footer's "+name+" is "+pathOrNone(w, v)+", not metadata."+name+": the file would not describe itself")
		}
		// FileFilterSectionSize = len(section) and that section is the first thing written
		var section ssa.Value
		for _, in := range w.callSitesIn(wf, "io.Writer.Write") {
			section = callOf(in).Args[0]
			break
		}
		okc := false
		if v := lit["FileFilterSectionSize"]; v != nil && section != nil {
			if c, ok := v.(*ssa.Call); ok {
				if b, ok := c.Call.Value.(*ssa.Builtin); ok && b.Name() == "len" && c.Call.Args[0] == section {
					okc = strings.HasPrefix(w.path(section), "call:encodeFilterSection@")
				}
			}
		}
		r.check(okc, rule, "WriteFileFooter:FileFilterSectionSize", w.pos(wf.Pos()), "= len(the filter section written first)", "FileFilterSectionSize is not the length of the filter section that was written: readers would locate the file-level filters (and the data area limit) wrongly")
	}
	if rf := fnOrUndecided(w, r, rule, "ReadFileMetadata"); rf != nil {
		lit := literalOf(w, rf, "FileMetadata")
		for _, name := range shared {
			v := lit[name]
			p := pathOrNone(w, v)
			r.check(v != nil && strings.HasPrefix(p, "call:fileMetadataFromBytesWithHash@") && strings.HasSuffix(p, "#0."+name), rule, "ReadFileMetadata:copies:"+name, w.pos(rf.Pos()), "read back from payload."+name, "ReadFileMetadata fills "+name+" from "+p+" instead of the decoded payload's "+name)
		}
	}
	// flag bits
	filterFlagTables(w, r, rule)
	// compression cases
	writerSet := compressionConsts(w, "BloomSearchEngine.createCompressionWriter")
	readerSet := compressionConsts(w, "decodeBlockRowDataInto")
	cfgSet := compressionConsts(w, "NewBloomSearchEngine")
	if len(readerSet) == 0 || len(cfgSet) == 0 {
		r.undecided(rule, "compression", "-", "compression case tables not recovered")
	} else {
		for c := range cfgSet {
			if c == "" {
				continue
			}
			r.check(readerSet[c], rule, "compression:accepted:"+c, "-", "decoder has a case", "the constructor accepts compression "+c+" but decodeBlockRowDataInto has no case for it: written blocks could not be read")
		}
		for c := range writerSet {
			r.check(readerSet[c] && cfgSet[c], rule, "compression:written:"+c, "-", "accepted and decodable", "the writer has a case for compression "+c+" that the decoder or the constructor does not know")
		}
	}
}

func pathOrNone(w *World, v ssa.Value) string {
	if v == nil {
		return "<not set>"
	}
	return w.path(v)
}

// flagTable recovers bit → filter field name from the encoder (`filters.F != nil`
// guarding `flags |= c`) or the parser (`flags & c != 0` guarding a store to filters.F).
func flagTable(w *World, fnName string, encoder bool) map[int]string {
	out := map[int]string{}
	fn := w.fn(fnName)
	if fn == nil {
		return out
	}
	for _, b := range fn.Blocks {
		if len(b.Instrs) == 0 {
			continue
		}
		ifi, ok := b.Instrs[len(b.Instrs)-1].(*ssa.If)
		if !ok {
			continue
		}
		bin, ok := ifi.Cond.(*ssa.BinOp)
		if !ok || bin.Op != token.NEQ {
			continue
		}
		tb := b.Succs[0]
		if encoder {
			_, field, _, ok := w.structFieldOf(bin.X)
			if !ok || !isNilConst(bin.Y) || !strings.HasSuffix(field, "BloomFilter") {
				continue
			}
			for _, in := range tb.Instrs {
				if o, ok := in.(*ssa.BinOp); ok && o.Op == token.OR {
					if c, ok := constInt(o.Y); ok {
						out[c] = field
					}
				}
			}
		} else {
			and, ok := bin.X.(*ssa.BinOp)
			if !ok || and.Op != token.AND {
				continue
			}
			c, ok := constInt(and.Y)
			if !ok {
				continue
			}
			// the store to filters.F in the true branch (possibly after the call block)
			for blk := range reachableLimited(tb, 3) {
				for _, in := range blk.Instrs {
					if st, ok := in.(*ssa.Store); ok {
						if _, field, _, ok := w.structFieldOf(st.Addr); ok && strings.HasSuffix(field, "BloomFilter") {
							if _, had := out[c]; !had {
								out[c] = field
							}
						}
					}
				}
				if len(out) > 0 && out[c] != "" {
					break
				}
			}
		}
	}
	return out
}

func reachableLimited(b *ssa.BasicBlock, depth int) map[*ssa.BasicBlock]bool {
	seen := map[*ssa.BasicBlock]bool{}
	var rec func(x *ssa.BasicBlock, d int)
	rec = func(x *ssa.BasicBlock, d int) {
		if seen[x] || d > depth {
			return
		}
		seen[x] = true
		if len(x.Succs) == 1 {
			rec(x.Succs[0], d+1)
		}
	}
	rec(b, 0)
	return seen
}

// compressionConsts lists the CompressionType constants a function compares against.
func compressionConsts(w *World, fnName string) map[string]bool {
	out := map[string]bool{}
	fn := w.fn(fnName)
	if fn == nil {
		return out
	}
	eachInstr(fn, func(in ssa.Instruction) {
		b, ok := in.(*ssa.BinOp)
		if !ok || b.Op != token.EQL {
			return
		}
		for _, v := range []ssa.Value{b.X, b.Y} {
			if c, ok := v.(*ssa.Const); ok && c.Value != nil && c.Value.Kind() == constant.String && w.typeName(c.Type()) == "CompressionType" {
				out[constant.StringVal(c.Value)] = true
			}
		}
	})
	return out
}

var assemblyCalls = map[string]string{
	"DataStore.CreateFile":                     "CreateFile",
	"io.WriteCloser.Close":                     "Close",
	"io.WriteCloser.Write":                     "bodyWrite",
	"WriteFileFooter":                          "Footer",
	"blockFilterRegionWriter.finish":           "finish",
	"blockFilterRegionWriter.add":              "regionAdd",
	"BloomSearchEngine.processPartitionBlocks": "bodyWrite",
	"BloomSearchEngine.copyDataBlock":          "bodyWrite",
	"BloomSearchEngine.mergeDataBlocks":        "bodyWrite",
	"MetaStore.Update":                         "Update",
}

func c17R2(w *World, r *Report) {
	const rule = "C17.R2"
	r.rule(rule, "assembly order: row data → filterRegion.finish (exactly once) → WriteFileFooter → Close; no body or region write after finish; the committed metadata is the object the footer was written from", 10)
	for _, name := range []string{"BloomSearchEngine.handleFlush", "BloomSearchEngine.executeMergeGroup"} {
		fn := fnOrUndecided(w, r, rule, name)
		if fn == nil {
			continue
		}
		cl := combine(namedCalls(w, assemblyCalls), &Classifier{Call: func(site ssa.Instruction, c *ssa.CallCommon) *Event {
			if w.calleeName(c) == "blockFilterRegionWriter.finish" {
				return (&Event{}).count("finish")
			}
			return nil
		}})
		fl := newFlow(w, fn, cl)
		short := strings.TrimPrefix(name, "BloomSearchEngine.")
		eachInstr(fn, func(in ssa.Instruction) {
			c := callOf(in)
			if c == nil {
				return
			}
			f := fl.Before(in)
			if f == nil {
				return
			}
			switch assemblyCalls[w.calleeName(c)] {
			case "bodyWrite", "regionAdd":
				r.check(!f.May("call:finish") && !f.May("call:Footer"), rule, short+":"+w.calleeName(c)+"-before-finish", w.instrPos(in), "block data and filter sections only before the region is written", "block row data or a filter section can be written after the filter region/footer: offsets recorded in the metadata would not match the file")
			case "finish":
				r.check(!f.May("call:finish") && !f.May("call:Footer"), rule, short+":finish-once-before-footer", w.instrPos(in), "region written once, before the footer", "filterRegion.finish can run twice or after the footer: block filter offsets are rebased twice or the region lands behind the footer")
			case "Footer":
				r.check(f.Must("ok:finish"), rule, short+":footer-after-region", w.instrPos(in), "footer after the region was written", "the footer can be written without the block filter region having been written successfully")
			case "Close":
				r.check(f.Must("ok:Footer"), rule, short+":close-after-footer", w.instrPos(in), "published only with a footer", "the writer can be closed (published) without a successfully written footer")
			}
		})
		for i, ret := range fl.Returns() {
			f := fl.Before(ret)
			if f.Must("ok:Close") {
				r.check(f.Cnt("finish") == c1, rule, fmt.Sprintf("%s:success-return#%d:finish-count", short, i), w.instrPos(ret), "finish ran exactly once", "on a successful path filterRegion.finish ran "+cntString(f.Cnt("finish"))+" times")
			}
		}
		// metadata identity
		var footerMeta ssa.Value
		for _, in := range w.callSitesIn(fn, "WriteFileFooter") {
			footerMeta = callOf(in).Args[1]
		}
		if footerMeta == nil {
			r.undecided(rule, short+":metadata-identity", w.pos(fn.Pos()), "WriteFileFooter call not found")
			continue
		}
		if short == "handleFlush" {
			okc := false
			for _, fa := range w.fieldAccesses("WriteOperation") {
				if fa.Fn == fn && fa.Write && fa.Field == "FileMetadata" {
					okc = fa.Val == footerMeta
				}
			}
			r.check(okc, rule, short+":metadata-identity", w.pos(fn.Pos()), "Update commits the metadata object the footer was written from", "the metadata handed to MetaStore.Update is not the object WriteFileFooter serialised: stores would index a description that differs from the file's own footer")
		} else {
			okc := false
			for _, ret := range fl.Returns() {
				if v := retOperand(ret, 1); v == footerMeta {
					okc = true
				}
			}
			r.check(okc, rule, short+":metadata-identity", w.pos(fn.Pos()), "returns the metadata object the footer was written from", "executeMergeGroup returns a different metadata object than the one written to the footer")
		}
	}
}

func c17R3(w *World, r *Report) {
	const rule = "C17.R3"
	r.rule(rule, "same-value agreement per block: bytes written, RowDataSize, offset increment and CRC input are one value; RowDataOffset is the running offset before the increment; the region offset is the running offset after the last block; counts come from the same buffer", 12)
	if fn := fnOrUndecided(w, r, rule, "BloomSearchEngine.handleFlush"); fn != nil {
		lit := blockLiteral(w, fn)
		var written ssa.Value
		for _, in := range w.callSitesIn(fn, "io.WriteCloser.Write") {
			written = callOf(in).Args[0]
		}
		if lit == nil || written == nil {
			r.undecided(rule, "handleFlush:anchors", w.pos(fn.Pos()), "block literal or row data write not found")
		} else {
			elem := strings.TrimSuffix(w.path(written), ".buffer") // not used: written is a call result
			_ = elem
			isLenOfWritten := func(v ssa.Value) bool {
				c, ok := v.(*ssa.Call)
				if !ok {
					return false
				}
				b, ok := c.Call.Value.(*ssa.Builtin)
				return ok && b.Name() == "len" && c.Call.Args[0] == written
			}
			r.check(isLenOfWritten(lit["RowDataSize"]), rule, "handleFlush:RowDataSize=len(written)", w.pos(fn.Pos()), "size of the bytes written", "RowDataSize is "+pathOrNone(w, lit["RowDataSize"])+", not the length of the bytes written")
			// CRC over the same bytes
			okCRC := false
			if c, ok := lit["RowDataHash"].(*ssa.Call); ok && w.calleeName(&c.Call) == "hash/crc32.Checksum" && c.Call.Args[0] == written {
				okCRC = w.path(c.Call.Args[1]) == "g:crc32cTable"
			}
			r.check(okCRC, rule, "handleFlush:RowDataHash=crc32c(written)", w.pos(fn.Pos()), "CRC32C of the bytes written", "RowDataHash is not the CRC32C of the bytes written")
			hh, _ := constBool(lit["HasRowDataHash"])
			r.check(hh, rule, "handleFlush:HasRowDataHash", w.pos(fn.Pos()), "hash marked present", "HasRowDataHash is not set: readers skip verification")
			// offset: phi, incremented by len(written) on the back edge
			off, isPhi := lit["RowDataOffset"].(*ssa.Phi)
			okOff := false
			if isPhi {
				for _, e := range off.Edges {
					if b, ok := e.(*ssa.BinOp); ok && b.Op == token.ADD && b.X == off && isLenOfWritten(b.Y) {
						okOff = true
					}
				}
			}
			r.check(okOff, rule, "handleFlush:RowDataOffset=running-offset-before-increment", w.pos(fn.Pos()), "offset before the block, advanced by len(written)", "RowDataOffset is not the running offset taken before it is advanced by the length written")
			// region offset and finish use the same running offset
			var finishOff ssa.Value
			for _, in := range w.callSitesIn(fn, "blockFilterRegionWriter.finish") {
				finishOff = callOf(in).Args[2]
			}
			okRegion := finishOff == ssa.Value(off)
			for _, fa := range w.fieldAccesses("FileMetadata") {
				if fa.Fn == fn && fa.Write && fa.Field == "BlockFilterRegionOffset" {
					okRegion = okRegion && fa.Val == finishOff
				}
				if fa.Fn == fn && fa.Write && fa.Field == "BlockFilterRegionSize" {
					okRegion = okRegion && strings.HasPrefix(w.path(fa.Val), "call:blockFilterRegionWriter.finish@")
				}
			}
			r.check(okRegion, rule, "handleFlush:region=(running offset, finish size)", w.pos(fn.Pos()), "region offset is the offset after the last block; size from finish", "the recorded block filter region does not start at the running offset after the last block / its size is not what finish wrote")
			// per-buffer agreement: everything derives from the same range element
			base := ""
			if c, ok := written.(*ssa.Call); ok && len(c.Call.Args) > 0 {
				base = strings.TrimSuffix(deref(w.path(c.Call.Args[0])), ".buffer")
			}
			for f, suffix := range map[string]string{"PartitionID": ".partitionID", "Rows": ".rowCount", "UncompressedSize": ".uncompressedSize", "MinMaxIndexes": ".minMaxIndexes"} {
				r.check(base != "" && w.path(lit[f]) == base+suffix, rule, "handleFlush:"+f+"-same-buffer", w.pos(fn.Pos()), "from the buffer whose bytes are written", f+" is "+pathOrNone(w, lit[f])+", not "+suffix+" of the partition buffer whose bytes are written")
			}
			okCounts := false
			if c, ok := lit["BloomEntryCounts"].(*ssa.Call); ok && w.isCallTo(&c.Call, "bloomEntrySets.counts") && w.path(c.Call.Args[0]) == base+".entries" {
				okCounts = true
			}
			r.check(okCounts, rule, "handleFlush:BloomEntryCounts-same-entries", w.pos(fn.Pos()), "counts of the buffer's own entry sets", "BloomEntryCounts do not come from the entry sets of the buffer being written")
			// compression recorded is the one configured (the encoder was created from it)
			r.check(w.path(lit["Compression"]) == "p:b.config.RowDataCompression", rule, "handleFlush:Compression=config", w.pos(fn.Pos()), "recorded compression is the configured one", "the block records compression "+pathOrNone(w, lit["Compression"])+" while its encoder was created from config.RowDataCompression")
		}
	}
	if fn := fnOrUndecided(w, r, rule, "BloomSearchEngine.mergeDataBlocks"); fn != nil {
		lit := blockLiteral(w, fn)
		if lit == nil {
			r.undecided(rule, "mergeDataBlocks:literal", w.pos(fn.Pos()), "block literal not found")
			return
		}
		var buf string
		for _, in := range w.callSitesIn(fn, "io.Writer.Write") {
			c := callOf(in)
			if w.path(c.Value) == "p:writer" {
				if bc, ok := c.Args[0].(*ssa.Call); ok && w.calleeName(&bc.Call) == "(*bytes.Buffer).Bytes" {
					buf = w.path(bc.Call.Args[0])
				}
			}
		}
		isLenOfBuf := func(v ssa.Value) bool {
			c, ok := v.(*ssa.Call)
			return ok && w.calleeName(&c.Call) == "(*bytes.Buffer).Len" && w.path(c.Call.Args[0]) == buf && buf != ""
		}
		r.check(isLenOfBuf(lit["RowDataSize"]), rule, "mergeDataBlocks:RowDataSize=len(buffer written)", w.pos(fn.Pos()), "size of the buffer written", "RowDataSize is not the length of the compressed buffer written to the output")
		// the hasher and the buffer are fed by one MultiWriter
		okHash := false
		if c, ok := lit["RowDataHash"].(*ssa.Call); ok && c.Call.IsInvoke() && c.Call.Method.Name() == "Sum32" {
			hasher := w.path(c.Call.Value)
			for _, in := range w.callSitesIn(fn, "io.MultiWriter") {
				ws := map[string]bool{}
				for _, e := range variadicElems(callOf(in).Args[0]) {
					ws[w.path(e)] = true
				}
				if ws[hasher] && ws[buf] {
					okHash = true
				}
			}
		}
		r.check(okHash, rule, "mergeDataBlocks:RowDataHash=hasher-fed-with-buffer", w.pos(fn.Pos()), "hash computed over exactly the bytes buffered", "RowDataHash does not come from a hasher fed through the same MultiWriter as the compressed buffer")
		r.check(w.path(lit["RowDataOffset"]) == "*p:currentOffset", rule, "mergeDataBlocks:RowDataOffset=*currentOffset", w.pos(fn.Pos()), "running offset", "RowDataOffset is "+pathOrNone(w, lit["RowDataOffset"]))
		// increment after the literal, by the buffer length
		okInc := false
		eachInstr(fn, func(in ssa.Instruction) {
			if st, ok := in.(*ssa.Store); ok && w.path(st.Addr) == "p:currentOffset" {
				if b, ok := st.Val.(*ssa.BinOp); ok && b.Op == token.ADD && isLenOfBuf(b.Y) {
					// the load feeding RowDataOffset must come before this store in the same block order
					if ld, ok := lit["RowDataOffset"].(*ssa.UnOp); ok && ld.Block() == st.Block() {
						for _, x := range st.Block().Instrs {
							if x == ssa.Instruction(ld) {
								okInc = true
								break
							}
							if x == ssa.Instruction(st) {
								break
							}
						}
					} else if ok && ld.Block().Dominates(st.Block()) {
						okInc = true
					}
				}
			}
		})
		r.check(okInc, rule, "mergeDataBlocks:offset-advanced-after-use-by-buffer-length", w.pos(fn.Pos()), "offset read before it advances by the buffer length", "the running offset is advanced before RowDataOffset is taken, or by something other than the length written")
		for f, want := range map[string]string{"Rows": "rowCount", "UncompressedSize": "uncompressedSize"} {
			ph, ok := lit[f].(*ssa.Phi)
			r.check(ok && ph.Comment == want, rule, "mergeDataBlocks:"+f+"=counter", w.pos(fn.Pos()), "from the per-row counter", f+" is not the per-row counter "+want)
		}
		okCounts := false
		if c, ok := lit["BloomEntryCounts"].(*ssa.Call); ok && w.isCallTo(&c.Call, "bloomEntrySets.counts") {
			for _, in := range w.callSitesIn(fn, "bloomEntrySets.buildFilters") {
				if callOf(in).Args[0] == c.Call.Args[0] {
					okCounts = true
				}
			}
		}
		r.check(okCounts, rule, "mergeDataBlocks:BloomEntryCounts-same-entries", w.pos(fn.Pos()), "counts of the sets the filters were built from", "BloomEntryCounts do not come from the entry sets the block's filters were built from")
		r.check(w.path(lit["Compression"]) == "p:b.config.RowDataCompression", rule, "mergeDataBlocks:Compression=config", w.pos(fn.Pos()), "recorded compression is the configured one", "recorded compression differs from the encoder's")
	}
	if fn := w.fn("blockFilterRegionWriter.finish"); fn != nil {
		// rebases every block exactly once: single loop adding regionOffset
		n := 0
		eachInstr(fn, func(in ssa.Instruction) {
			if st, ok := in.(*ssa.Store); ok && strings.HasSuffix(w.path(st.Addr), ".BloomFilterOffset") {
				if b, ok := st.Val.(*ssa.BinOp); ok && b.Op == token.ADD && w.path(b.Y) == "p:regionOffset" {
					n++
				}
			}
		})
		r.check(n == 1, rule, "finish:rebase-once", w.pos(fn.Pos()), "each block's filter offset rebased by the region offset", "finish does not rebase each block's BloomFilterOffset by regionOffset exactly once")
	}
}

// ---------------------------------------------------------------------------

func checkC18(w *World, r *Report, tier string) propMeta {
	c18R1(w, r)
	c18R2(w, r)
	c18R3(w, r)
	c18R4(w, r)
	c18R5(w, r)
	r.rule("C18.R6", "UpdateMinMaxIndex, which ingest folds each row's value into the buffer's range with, returns (min,max) under every ordering of its inputs (shared with C04.R2)", 1)
	updateMinMaxTable(w, r, "C18.R6")
	c11R3(w, r) // merged blocks carry the running union of their members' ranges
	c03R6(w, r, "C18.R7")
	c03R4(w, r) // entry sets never alias a pooled buffer
	return propMeta{
		explanation: "Index coverage as typestate, per-iteration and value-identity rules: (R1) an entry set is never mutated (indexRow / unionInto as destination, directly or through a callee that mutates its parameter) after buildFilters/counts sealed it in the same function; (R2) every append of a block's metadata to a file's block list is preceded in its iteration by the merge of that block's entries into the file-level set (unionInto, or re-indexing every scanned row for copied blocks), and file-level filters are built only after the last block; (R3) a block's filters are built from the set that indexed that block's rows; (R4) indexRow records a field entry for every emission and a token and field:token entry for every token of every non-null leaf (fast and slow tokenizer paths), and buildSizedBloomFilter adds every entry; (R5) a buffer's PartitionID is the PartitionFunc value its rows were grouped under, and the minmax wiring feeds (min,max) of the row's own value into the buffer the row is written to.",
		notDecided:  "That the walker enumerates every path/leaf of a document (value-level; differential testing), bloom hashing itself.",
	}
}

// mutatesParam computes, for every package function, which *bloomEntrySets
// parameters it mutates (indexRow receiver, unionInto destination), transitively.
func mutatesParam(w *World) map[*ssa.Function]map[int]bool {
	out := map[*ssa.Function]map[int]bool{}
	paramIdx := func(fn *ssa.Function, v ssa.Value) int {
		for i, p := range fn.Params {
			if ssa.Value(p) == v {
				return i
			}
		}
		return -1
	}
	for changed := true; changed; {
		changed = false
		for _, fn := range w.Funcs {
			eachInstr(fn, func(in ssa.Instruction) {
				c := callOf(in)
				if c == nil {
					return
				}
				var mutated []ssa.Value
				switch w.calleeName(c) {
				case "bloomEntrySets.indexRow":
					mutated = append(mutated, c.Args[0])
				case "bloomEntrySets.unionInto":
					mutated = append(mutated, c.Args[1])
				default:
					if callee := w.staticCallee(c); callee != nil {
						for i := range out[callee] {
							if i < len(c.Args) {
								mutated = append(mutated, c.Args[i])
							}
						}
					}
				}
				for _, v := range mutated {
					if i := paramIdx(fn, v); i >= 0 {
						if out[fn] == nil {
							out[fn] = map[int]bool{}
						}
						if !out[fn][i] {
							out[fn][i] = true
							changed = true
						}
					}
				}
			})
		}
	}
	return out
}

func c18R1(w *World, r *Report) {
	const rule = "C18.R1"
	r.rule(rule, "mutate before seal: no indexRow/unionInto(dst) (direct or via a callee mutating its parameter) on an entry set after buildFilters/counts sealed it in the same function", 4)
	mp := mutatesParam(w)
	for _, fn := range w.Funcs {
		hasSeal := len(w.callSitesIn(fn, "bloomEntrySets.buildFilters", "bloomEntrySets.counts")) > 0
		if !hasSeal || strings.HasPrefix(w.name(fn), "bloomEntrySets.") {
			continue
		}
		mutations := func(c *ssa.CallCommon) []ssa.Value {
			switch w.calleeName(c) {
			case "bloomEntrySets.indexRow":
				return []ssa.Value{c.Args[0]}
			case "bloomEntrySets.unionInto":
				return []ssa.Value{c.Args[1]}
			}
			var out []ssa.Value
			if callee := w.staticCallee(c); callee != nil {
				for i := range mp[callee] {
					if i < len(c.Args) {
						out = append(out, c.Args[i])
					}
				}
			}
			return out
		}
		cl := &Classifier{Call: func(site ssa.Instruction, c *ssa.CallCommon) *Event {
			if w.isCallTo(c, "bloomEntrySets.buildFilters", "bloomEntrySets.counts") {
				return &Event{May: []string{"sealed:" + w.path(c.Args[0])}}
			}
			return nil
		}}
		fl := newFlow(w, fn, cl)
		n := 0
		eachInstr(fn, func(in ssa.Instruction) {
			c := callOf(in)
			if c == nil {
				return
			}
			for _, v := range mutations(c) {
				n++
				f := fl.Before(in)
				p := w.path(v)
				// objects that are per-iteration values (range elements) are distinct objects in each iteration
				perIter := strings.Contains(p, "next(range(") || strings.Contains(p, "[")
				r.check(f == nil || !f.May("sealed:"+p) || perIter, rule, fmt.Sprintf("%s:mutate(%s)#%d", w.name(fn), w.calleeName(c), n), w.instrPos(in), "set not yet sealed", "entry set "+p+" is mutated after its filters/counts were built: the written filter misses entries of rows the block or file holds (false negatives)")
			}
		})
		if n == 0 {
			r.ok(rule, w.name(fn)+":seal-only", w.pos(fn.Pos()), "function only seals")
		}
	}
}

func c18R2(w *World, r *Report) {
	const rule = "C18.R2"
	r.rule(rule, "file-level coverage: each append of a block's metadata to a file's block list follows, within its iteration/call, the merge of that block's entries into the file-level set; file filters are built after the last append", 4)
	type spec struct {
		fn       string
		fileSet  func(fn *ssa.Function) string
		appendTo func(p string) bool
	}
	isBlockAppend := func(w *World, in ssa.Instruction) bool {
		c, ok := in.(*ssa.Call)
		if !ok {
			return false
		}
		_, elems, ok := appendedElems(c)
		return ok && len(elems) == 1 && w.typeName(elems[0].Type()) == "DataBlockMetadata"
	}
	for _, name := range []string{"BloomSearchEngine.handleFlush", "BloomSearchEngine.mergeDataBlocks", "BloomSearchEngine.copyDataBlock"} {
		fn := fnOrUndecided(w, r, rule, name)
		if fn == nil {
			continue
		}
		short := strings.TrimPrefix(name, "BloomSearchEngine.")
		// the file-level set: a *bloomEntrySets parameter, or the local set whose filters go into FileMetadata.BloomFilters
		fileSet := ""
		for _, p := range fn.Params {
			if w.typeName(p.Type()) == "*bloomEntrySets" {
				fileSet = w.path(p)
			}
		}
		if fileSet == "" {
			for _, fa := range w.fieldAccesses("FileMetadata") {
				if fa.Fn == fn && fa.Write && fa.Field == "BloomFilters" {
					if c, ok := fa.Val.(*ssa.Call); ok && w.isCallTo(&c.Call, "bloomEntrySets.buildFilters") {
						fileSet = w.path(c.Call.Args[0])
					}
				}
			}
		}
		if fileSet == "" {
			r.undecided(rule, short+":file-level-set", w.pos(fn.Pos()), "file-level entry set not identified")
			continue
		}
		nexts := w.callSitesIn(fn, "BlockRowScanner.Next")
		cl := &Classifier{
			Call: func(site ssa.Instruction, c *ssa.CallCommon) *Event {
				switch {
				case w.isCallTo(c, "bloomEntrySets.unionInto") && w.path(c.Args[1]) == fileSet:
					return ev("covered")
				case w.isCallTo(c, "bloomEntrySets.buildFilters") && w.path(c.Args[0]) == fileSet:
					return &Event{May: []string{"fileFiltersBuilt"}}
				case w.isCallTo(c, "bloomEntrySets.indexRow") && w.path(c.Args[0]) == fileSet:
					return ev("indexedIntoFile")
				}
				return nil
			},
			CallEdge: func(call ssa.Value, outcome string) *Event {
				if short == "copyDataBlock" && len(nexts) == 1 && call == nexts[0].(ssa.Value) && outcome == "false" {
					return ev("covered") // every row was streamed (per-row indexing checked under C11.R4)
				}
				return nil
			},
		}
		fl := newFlow(w, fn, cl)
		n := 0
		eachInstr(fn, func(in ssa.Instruction) {
			if !isBlockAppend(w, in) {
				return
			}
			n++
			f := fl.Before(in)
			r.check(f.Must("covered") && !f.May("fileFiltersBuilt"), rule, fmt.Sprintf("%s:append-block#%d", short, n), w.instrPos(in), "block's entries merged into the file-level set first; file filters not yet built", fmt.Sprintf("a block is added to the file (entries-merged=%v, file-filters-already-built=%v): the file-level filter can rule out a file that holds matching rows", f.Must("covered"), f.May("fileFiltersBuilt")))
		})
		if n == 0 {
			r.undecided(rule, short+":append-block", w.pos(fn.Pos()), "no append of block metadata found")
		}
		if short == "copyDataBlock" {
			for _, in := range nexts {
				backs := loopBackEdgeFacts(fl, in)
				okc := len(backs) > 0
				for _, f := range backs {
					if !f.Must("indexedIntoFile") {
						okc = false
					}
				}
				r.check(okc, rule, "copyDataBlock:reindex-each-row", w.instrPos(in), "every scanned row indexed into the file-level set", "copied rows are not all re-indexed into the file-level set")
			}
		}
	}
}

func c18R3(w *World, r *Report) {
	const rule = "C18.R3"
	r.rule(rule, "block filters come from the set that indexed the block's rows (flush: the buffer's own entries; merge: the set fed in the scan loop; ingest: the set of the buffer the row is written to)", 3)
	if fn := w.fn("BloomSearchEngine.handleFlush"); fn != nil {
		var written ssa.Value
		for _, in := range w.callSitesIn(fn, "io.WriteCloser.Write") {
			written = callOf(in).Args[0]
		}
		base := ""
		if c, ok := written.(*ssa.Call); ok && len(c.Call.Args) > 0 {
			base = strings.TrimSuffix(deref(w.path(c.Call.Args[0])), ".buffer")
		}
		okc := false
		for _, in := range w.callSitesIn(fn, "bloomEntrySets.buildFilters") {
			if base != "" && w.path(callOf(in).Args[0]) == base+".entries" {
				okc = true
			}
		}
		r.check(okc, rule, "handleFlush:filters-from-buffer-entries", w.pos(fn.Pos()), "built from the entries of the buffer being written", "the block's filters are not built from the entry sets of the partition buffer whose rows are written")
	}
	if fn := w.fn("BloomSearchEngine.mergeDataBlocks"); fn != nil {
		var indexed, built ssa.Value
		for _, in := range w.callSitesIn(fn, "bloomEntrySets.indexRow") {
			indexed = callOf(in).Args[0]
		}
		for _, in := range w.callSitesIn(fn, "bloomEntrySets.buildFilters") {
			built = callOf(in).Args[0]
		}
		r.check(indexed != nil && indexed == built, rule, "mergeDataBlocks:filters-from-indexed-set", w.pos(fn.Pos()), "built from the set the scan loop fed", "the merged block's filters are built from a different set than the one its rows were indexed into")
	}
	if fn := w.fn("BloomSearchEngine.processIngestRequest"); fn != nil {
		var idxBase, wrBase string
		for _, in := range w.callSitesIn(fn, "bloomEntrySets.indexRow") {
			idxBase = strings.TrimSuffix(w.path(callOf(in).Args[0]), ".entries")
		}
		okc := idxBase != ""
		for _, in := range w.callSitesIn(fn, "io.Writer.Write") {
			wrBase = strings.TrimSuffix(w.path(callOf(in).Value), ".compressionEncoders.writer")
			if wrBase != idxBase {
				okc = false
			}
		}
		r.check(okc, rule, "processIngestRequest:index-and-write-same-buffer", w.pos(fn.Pos()), "row indexed into the buffer it is written to", "a row is indexed into "+idxBase+" but written to "+wrBase+": the block's filters would not cover its own rows")
	}
}

func c18R4(w *World, r *Report) {
	const rule = "C18.R4"
	r.rule(rule, "complete insertion: indexRow's walker callback records a field entry on every emission and, for every non-null leaf, a token and field:token entry per token (fast and slow path); buildSizedBloomFilter adds every entry", 6)
	idx := fnOrUndecided(w, r, rule, "bloomEntrySets.indexRow")
	if idx == nil {
		return
	}
	var cb *ssa.Function
	for _, in := range w.callSitesIn(idx, "pathWalker.walk") {
		c := callOf(in)
		if mc, ok := c.Args[len(c.Args)-1].(*ssa.MakeClosure); ok {
			cb = mc.Fn.(*ssa.Function)
		}
	}
	if cb == nil {
		r.undecided(rule, "indexRow:callback", w.pos(idx.Pos()), "walker callback not found")
		return
	}
	mapRec := func(mapSuffix string) *Classifier {
		return &Classifier{
			Instr: func(in ssa.Instruction) *Event {
				if mu, ok := in.(*ssa.MapUpdate); ok && strings.HasSuffix(w.path(mu.Map), mapSuffix) {
					return ev("rec:" + mapSuffix)
				}
				return nil
			},
			CallEdge: func(call ssa.Value, outcome string) *Event {
				if lk, ok := call.(*ssa.Lookup); ok && lk.CommaOk && strings.HasSuffix(w.path(lk.X), mapSuffix) && outcome == "true" {
					return ev("rec:" + mapSuffix) // already present
				}
				return nil
			},
		}
	}
	var fast *ssa.Function
	cl := combine(mapRec(".fields"), mapRec(".tokens"), &Classifier{
		Cond: func(c Cond, taken bool) *Event {
			if c.Op == "truth" && !taken && w.path(c.X) == "p:isLeaf" {
				return ev("tokensHandled")
			}
			return nil
		},
		CallEdge: func(call ssa.Value, outcome string) *Event {
			if c, ok := call.(*ssa.Call); ok && w.isCallTo(&c.Call, "leafTokenInput") && outcome == "false" {
				return ev("tokensHandled") // null: field existence only
			}
			return nil
		},
		Call: func(site ssa.Instruction, c *ssa.CallCommon) *Event {
			if w.isCallTo(c, "forEachWord") {
				if mc, ok := c.Args[1].(*ssa.MakeClosure); ok {
					fast = mc.Fn.(*ssa.Function)
					return ev("tokensHandled")
				}
			}
			if w.isCallTo(c, "bloomEntrySets.addFieldToken") {
				return ev("rec:fieldToken")
			}
			return nil
		},
		Instr: func(in ssa.Instruction) *Event { return nil },
	})
	fl := newFlow(w, cb, cl)
	// slow path: the tokenizer loop's exhaustion edge marks tokens handled; per-iteration recording checked below
	var slowLoopCall ssa.Instruction
	eachInstr(cb, func(in ssa.Instruction) {
		if c, ok := in.(*ssa.Call); ok && strings.HasPrefix(w.calleeName(&c.Call), "dyn:") && strings.Contains(w.calleeName(&c.Call), "tokenizer") {
			slowLoopCall = in
		}
	})
	for i, ret := range fl.Returns() {
		f := fl.Before(ret)
		v := retOperand(ret, 0)
		b, isC := constBool(v)
		handled := f.Must("tokensHandled")
		if !handled && slowLoopCall != nil && f.Must("rec:.fields") {
			// the return after the slow loop: reached only through the loop's exhaustion
			handled = slowLoopCall.Block().Dominates(ret.Block()) && ret.Block() != slowLoopCall.Block()
		}
		r.check(isC && b && f.Must("rec:.fields") && handled, rule, fmt.Sprintf("indexRow.callback:return#%d", i), w.instrPos(ret), "field recorded, tokens handled, walk continues", fmt.Sprintf("the indexing callback can return with field-recorded=%v tokens-handled=%v continue=%v: an emitted path or a leaf's tokens are missing from the entry sets", f.Must("rec:.fields"), handled, isC && b))
	}
	// slow loop: each token recorded + addFieldToken on every iteration
	if slowLoopCall != nil {
		var inLoop ssa.Instruction
		for _, in := range w.callSitesIn(cb, "bloomEntrySets.addFieldToken") {
			if loopOf(in.Block()) != nil {
				inLoop = in
			}
		}
		if inLoop == nil {
			r.bad(rule, "indexRow.callback:slow-loop", w.instrPos(slowLoopCall), "custom-tokenizer tokens are not recorded as field:token entries")
		} else {
			backs := loopBackEdgeFacts(fl, inLoop)
			okc := len(backs) > 0
			for _, f := range backs {
				if !f.Must("rec:.tokens") || !f.Must("rec:fieldToken") {
					okc = false
				}
			}
			r.check(okc, rule, "indexRow.callback:slow-loop", w.instrPos(inLoop), "token and field:token recorded for each tokenizer output", "a token produced by the configured tokenizer can be skipped (token or field:token entry not recorded)")
		}
	} else {
		r.undecided(rule, "indexRow.callback:slow-loop", w.pos(cb.Pos()), "configured-tokenizer call not found")
	}
	if fast != nil {
		ffl := newFlow(w, fast, combine(mapRec(".tokens"), &Classifier{Call: func(site ssa.Instruction, c *ssa.CallCommon) *Event {
			if w.isCallTo(c, "bloomEntrySets.addFieldToken") {
				return ev("rec:fieldToken")
			}
			if w.isCallTo(c, "appendFoldedWord") {
				return ev("folded")
			}
			return nil
		}}))
		for i, ret := range ffl.Returns() {
			f := ffl.Before(ret)
			b, isC := constBool(retOperand(ret, 0))
			r.check(isC && b && f.Must("folded") && f.Must("rec:.tokens") && f.Must("rec:fieldToken"), rule, fmt.Sprintf("indexRow.fastword:return#%d", i), w.instrPos(ret), "word folded, token and field:token recorded, scan continues", "the fast tokenizer path can skip a word (or stop early): its token entries are missing")
		}
	} else {
		r.undecided(rule, "indexRow.fastword", w.pos(cb.Pos()), "fast-path word callback not found")
	}
	// addFieldToken always records
	if aft := w.fn("bloomEntrySets.addFieldToken"); aft != nil {
		afl := newFlow(w, aft, mapRec(".fieldTokens"))
		okc := len(afl.Returns()) > 0
		for _, ret := range afl.Returns() {
			if !afl.Before(ret).Must("rec:.fieldTokens") {
				okc = false
			}
		}
		r.check(okc, rule, "addFieldToken:records", w.pos(aft.Pos()), "pair present or inserted on every path", "addFieldToken can return without the field:token pair being in the set")
	}
	// buildSizedBloomFilter adds every entry
	if bf := fnOrUndecided(w, r, rule, "buildSizedBloomFilter"); bf != nil {
		adds := w.callSitesIn(bf, "(*github.com/bits-and-blooms/bloom/v3.BloomFilter).AddString", "(*github.com/bits-and-blooms/bloom/v3.BloomFilter).Add")
		if len(adds) != 1 {
			r.undecided(rule, "buildSizedBloomFilter:add", w.pos(bf.Pos()), fmt.Sprintf("expected one Add call, found %d", len(adds)))
		} else {
			scc := loopOf(adds[0].Block())
			okc := scc != nil
			if scc != nil {
				hdr := loopHeader(scc)
				for b := range scc {
					for _, s := range b.Succs {
						if !scc[s] && b != hdr {
							okc = false
						}
					}
				}
				bfl := newFlow(w, bf, &Classifier{Call: func(site ssa.Instruction, c *ssa.CallCommon) *Event {
					if site == adds[0] {
						return ev("added")
					}
					return nil
				}})
				for _, f := range loopBackEdgeFacts(bfl, adds[0]) {
					if !f.Must("added") {
						okc = false
					}
				}
				// ranges over the parameter map and adds the range key
				c := callOf(adds[0])
				okc = okc && strings.HasPrefix(w.path(c.Args[1]), "next(range(p:entries))")
			}
			r.check(okc, rule, "buildSizedBloomFilter:adds-every-entry", w.instrPos(adds[0]), "every entry of the set is added", "buildSizedBloomFilter can skip entries of the set it was sized for")
		}
	}
}

func c18R5(w *World, r *Report) {
	const rule = "C18.R5"
	r.rule(rule, "partition and minmax wiring at ingest: rows are grouped under PartitionFunc(row); a buffer's partitionID, its map key and the rows/row-bytes it receives use one key; ConvertToMinMaxInt64's (min,max) of row[index] feed Min/Max of the row's own buffer, unswapped", 7)
	fn := fnOrUndecided(w, r, rule, "BloomSearchEngine.processIngestRequest")
	if fn == nil {
		return
	}
	// (a) grouping: partitionedRows[PartitionFunc(row)] = append(partitionedRows[same], row)
	okGroup := false
	eachInstr(fn, func(in ssa.Instruction) {
		mu, ok := in.(*ssa.MapUpdate)
		if !ok {
			return
		}
		kc, ok := mu.Key.(*ssa.Call)
		if !ok || w.calleeName(&kc.Call) != "dyn:p:b.config.PartitionFunc" {
			return
		}
		ac, ok := mu.Value.(*ssa.Call)
		if !ok {
			return
		}
		base, elems, ok := appendedElems(ac)
		if ok && len(elems) == 1 && elems[0] == kc.Call.Args[0] {
			if lk, ok := base.(*ssa.Lookup); ok && lk.X == mu.Map && lk.Index == mu.Key {
				okGroup = true
			}
		}
	})
	r.check(okGroup, rule, "processIngestRequest:group-by-PartitionFunc(row)", w.pos(fn.Pos()), "row appended under the key PartitionFunc returned for it", "rows are not grouped under PartitionFunc(row) of the same row: a block's PartitionID would not be its rows' partition")
	// (b) new buffer: partitionID field, map key are the same range key
	lit := literalOf(w, fn, "partitionBuffer")
	var bufKey ssa.Value
	eachInstr(fn, func(in ssa.Instruction) {
		if mu, ok := in.(*ssa.MapUpdate); ok && w.path(mu.Map) == "p:partitionBuffers" {
			bufKey = mu.Key
		}
	})
	r.check(lit != nil && bufKey != nil && lit["partitionID"] == bufKey && strings.HasPrefix(w.path(bufKey), "next(range("), rule, "processIngestRequest:buffer.partitionID=map-key", w.pos(fn.Pos()), "buffer registered under the partition it is labelled with", "a new partition buffer's partitionID differs from the key it is registered under")
	// (c) processing loop: buffer lookup key, rows and row bytes share the range key of one Next
	var lookups []*ssa.Lookup
	eachInstr(fn, func(in ssa.Instruction) {
		if lk, ok := in.(*ssa.Lookup); ok && !lk.CommaOk {
			p := w.path(lk.X)
			if p == "p:partitionBuffers" || strings.HasPrefix(p, "makemap@") {
				lookups = append(lookups, lk)
			}
		}
	})
	okLoop := false
	for _, a := range lookups {
		if w.path(a.X) != "p:partitionBuffers" {
			continue
		}
		// the loop's buffer lookup (not the nil test in the creation loop): it feeds indexRow
		feeds := false
		for _, in := range w.callSitesIn(fn, "bloomEntrySets.indexRow") {
			if strings.HasPrefix(w.path(callOf(in).Args[0]), w.path(a)) {
				feeds = true
			}
		}
		if !feeds {
			continue
		}
		key, isExt := a.Index.(*ssa.Extract)
		if !isExt {
			continue
		}
		sameKeyBytes := false
		for _, b := range lookups {
			if b != a && b.Index == a.Index && strings.HasPrefix(w.path(b.X), "makemap@") {
				sameKeyBytes = true
			}
		}
		// rows iterated come from the same Next (value component)
		rowsFromSameNext := false
		for _, in := range w.callSitesIn(fn, "ConvertToMinMaxInt64") {
			if strings.Contains(w.path(callOf(in).Args[0]), w.path(key.Tuple)+"#2[") {
				rowsFromSameNext = true
			}
		}
		if sameKeyBytes && rowsFromSameNext {
			okLoop = true
		}
	}
	r.check(okLoop, rule, "processIngestRequest:one-key-per-iteration", w.pos(fn.Pos()), "buffer, rows and row bytes of an iteration share the partition key", "within the processing loop the buffer, the rows and their marshaled bytes are not selected by one partition key: rows can be indexed or written under another partition")
	// row bytes index agreement: rowBytesList[i] written where rows[i] is processed
	okIdx := false
	for _, in := range w.callSitesIn(fn, "bloomEntrySets.indexRow") {
		p := w.path(callOf(in).Args[1])
		for _, c := range w.callSitesIn(fn, "ConvertToMinMaxInt64") {
			q := w.path(callOf(c).Args[0])
			// both end in "[<same index expr>]" / "[...][p:index...]"
			i1 := strings.LastIndex(p, "[")
			if i1 > 0 && strings.Contains(q, p[i1:]) {
				okIdx = true
			}
		}
	}
	r.check(okIdx, rule, "processIngestRequest:bytes[i]-with-row[i]", w.pos(fn.Pos()), "row i's minmax values accompany row i's bytes", "the bytes indexed/written and the row whose minmax values are recorded use different indexes")
	// minmax wiring
	n := 0
	for _, in := range w.callSitesIn(fn, "ConvertToMinMaxInt64") {
		call := in.(*ssa.Call)
		n++
		arg := w.path(call.Call.Args[0])
		r.check(strings.Contains(arg, "[p:b.config.MinMaxIndexes["), rule, "processIngestRequest:minmax-source=row[index]", w.instrPos(in), "value read from the original row at the configured key", "the minmax value is read from "+arg+", not row[configured index]")
		var minE, maxE ssa.Value
		for _, ref := range *call.Referrers() {
			if e, ok := ref.(*ssa.Extract); ok {
				switch e.Index {
				case 0:
					minE = e
				case 1:
					maxE = e
				}
			}
		}
		mlit := literalOf(w, fn, "MinMaxIndex")
		r.check(mlit != nil && mlit["Min"] == minE && mlit["Max"] == maxE && minE != nil, rule, "processIngestRequest:MinMaxIndex{Min:min,Max:max}", w.instrPos(in), "first range: Min=min, Max=max", "the first MinMaxIndex of a key is not {Min: min, Max: max} of the converted value")
		okUpd := false
		for _, u := range w.callSitesIn(fn, "UpdateMinMaxIndex") {
			uc := callOf(u)
			if uc.Args[1] == minE && uc.Args[2] == maxE {
				okUpd = true
			}
		}
		r.check(okUpd, rule, "processIngestRequest:UpdateMinMaxIndex(existing,min,max)", w.instrPos(in), "update with (min, max)", "UpdateMinMaxIndex is not called with (min, max) of the converted value in that order")
	}
	if n == 0 {
		r.undecided(rule, "processIngestRequest:minmax", w.pos(fn.Pos()), "ConvertToMinMaxInt64 call not found")
	}
	// the index is stored under the configured key, in the row's own buffer
	okStore := false
	eachInstr(fn, func(in ssa.Instruction) {
		if mu, ok := in.(*ssa.MapUpdate); ok && strings.HasSuffix(w.path(mu.Map), ".minMaxIndexes") && strings.HasPrefix(w.path(mu.Key), "p:b.config.MinMaxIndexes[") {
			for _, ix := range w.callSitesIn(fn, "bloomEntrySets.indexRow") {
				if strings.TrimSuffix(w.path(callOf(ix).Args[0]), ".entries") == strings.TrimSuffix(w.path(mu.Map), ".minMaxIndexes") {
					okStore = true
				}
			}
		}
	})
	r.check(okStore, rule, "processIngestRequest:minmax-into-row's-buffer", w.pos(fn.Pos()), "range recorded under the configured key in the buffer the row goes to", "minmax ranges are recorded in a different buffer (or under a different key) than the row is written to")
}

// filterFlagTables: the filter section's presence bits mean the same filter to
// the encoder and to the parser. Evaluated under C17 (files describe
// themselves) and C01 (an absent filter must fail open for its own conditions,
// which it only does if the present ones land in their own slots).
func filterFlagTables(w *World, r *Report, rule string) {
	enc, dec := flagTable(w, "encodeFilterSection", true), flagTable(w, "parseFilterSection", false)
	if len(enc) == 0 || len(dec) == 0 {
		r.undecided(rule, "flags", "-", fmt.Sprintf("flag tables not recovered (encoder %d, parser %d entries)", len(enc), len(dec)))
	} else {
		for bit, f := range enc {
			r.check(dec[bit] == f, rule, fmt.Sprintf("flags:bit%d", bit), "-", "bit "+fmt.Sprint(bit)+" ↔ "+f+" in both", fmt.Sprintf("presence bit %d means %s to the encoder but %q to the parser: filters are decoded into the wrong slot", bit, f, dec[bit]))
		}
		for bit, f := range dec {
			if _, ok := enc[bit]; !ok {
				r.bad(rule, fmt.Sprintf("flags:bit%d", bit), "-", "the parser reads "+f+" for bit "+fmt.Sprint(bit)+" which the encoder never sets")
			}
		}
	}
}

// c17R7: what is accumulated for one output file starts empty with that file.
func c17R7(w *World, r *Report) {
	const rule = "C17.R7"
	r.rule(rule, "per-file accumulators are per-file: the blockFilterRegionWriter a file's filter region is buffered in is a zero-valued local of the function that creates the file (handleFlush, executeMergeGroup) — never state that outlives the file, which a failed attempt would leave non-empty for the next file", 2)
	isRegionPtr := func(t types.Type) bool { return w.typeName(t) == "*blockFilterRegionWriter" }
	n := 0
	for _, name := range []string{"BloomSearchEngine.handleFlush", "BloomSearchEngine.executeMergeGroup"} {
		root := fnOrUndecided(w, r, rule, name)
		if root == nil {
			continue
		}
		fns := append([]*ssa.Function{root}, root.AnonFuncs...)
		seen := map[ssa.Value]bool{}
		for _, fn := range fns {
			eachInstr(fn, func(in ssa.Instruction) {
				c := callOf(in)
				if c == nil {
					return
				}
				for _, a := range c.Args {
					if !isRegionPtr(a.Type()) || seen[a] {
						continue
					}
					seen[a] = true
					v := a
					if fv, ok := v.(*ssa.FreeVar); ok {
						if b := freeVarBinding(fv); b != nil {
							v = b
						}
					}
					al, ok := v.(*ssa.Alloc)
					local := ok && (al.Parent() == root || w.hostOf(al.Parent()) == root)
					// no store initialises it from elsewhere: the zero value
					fresh := local
					if local {
						for _, ref := range *al.Referrers() {
							if st, ok := ref.(*ssa.Store); ok && st.Addr == ssa.Value(al) {
								if _, isZero := st.Val.(*ssa.Const); !isZero {
									fresh = false
								}
							}
						}
					}
					n++
					r.check(fresh, rule, baseName(name)+":region-writer:"+w.calleeName(c), w.instrPos(in), "a zero-valued local of the file-creating function", baseName(name)+" buffers the file's filter sections in "+w.path(a)+", which outlives the file: sections left behind by a failed attempt are written into the next file's region — bytes that belong to no block, and BloomFilterOffset/BlockFilterRegionSize no longer describe the sections back to back")
				}
			})
		}
	}
	if n < 2 {
		r.undecided(rule, "sites", "-", fmt.Sprintf("expected the region writer to be used in handleFlush and executeMergeGroup, found %d uses", n))
	}
}

// c17R8: what is committed is what the footer says.
func c17R8(w *World, r *Report, rule string) {
	r.rule(rule, "metadata frozen after the footer: in the functions that write a file (handleFlush, executeMergeGroup) no field of the FileMetadata value is stored to after WriteFileFooter was called with it — the object handed to MetaStore.Update is exactly what the file records about itself", 2)
	n := 0
	for _, name := range []string{"BloomSearchEngine.handleFlush", "BloomSearchEngine.executeMergeGroup"} {
		fn := fnOrUndecided(w, r, rule, name)
		if fn == nil {
			continue
		}
		var md ssa.Value
		for _, in := range w.callSitesIn(fn, "WriteFileFooter") {
			md = callOf(in).Args[1]
		}
		if md == nil {
			r.undecided(rule, baseName(name)+":footer", w.pos(fn.Pos()), "WriteFileFooter call not found")
			continue
		}
		al, _ := stripToAlloc(md)
		fl := newFlow(w, fn, namedCalls(w, map[string]string{"WriteFileFooter": "footer"}))
		bad := ""
		eachInstr(fn, func(in ssa.Instruction) {
			st, ok := in.(*ssa.Store)
			if !ok {
				return
			}
			// a store into the metadata object (a field, or the whole value)
			base := st.Addr
			for {
				switch x := base.(type) {
				case *ssa.FieldAddr:
					base = x.X
					continue
				case *ssa.IndexAddr:
					base = x.X
					continue
				}
				break
			}
			if base != md && (al == nil || base != ssa.Value(al)) {
				return
			}
			if f := fl.Before(in); f != nil && f.May("call:footer") {
				bad = w.instrPos(in) + " (" + deref(w.path(st.Addr)) + ")"
			}
		})
		n++
		r.check(bad == "", rule, baseName(name)+":no-store-after-footer", w.pos(fn.Pos()), "metadata untouched after the footer was written", baseName(name)+" changes the file's metadata after its footer was written, at "+bad+": the MetaStore is given metadata that differs from what the file records (e.g. without its file-level filters, so the file stage can no longer rule the file out and it is opened for every query)")
	}
	if n < 2 {
		r.undecided(rule, "anchors", "-", "expected both file-writing functions")
	}
}
