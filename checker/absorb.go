package main

import (
	"go/types"

	"golang.org/x/tools/go/ssa"
)

// Helper absorption. A named function of the package that is not in
// baselineFuncs did not exist when the rule tables were confirmed: it is a
// helper extracted later. Rules are anchored on the functions that existed, so
// such a helper is analysed as part of its callers:
//
//   * flow.go runs the helper's body in line at each plain call (entry state =
//     the caller's state at the call; the caller continues with the join of the
//     helper's return states, split into the error-nil / error-non-nil (or
//     true / false) subsets on the edges that test its result);
//   * access paths of the helper's parameters resolve to the arguments of its
//     call site when there is exactly one (as a closure's free variables do);
//   * eachInstr / callSitesIn visit the helper's instructions with the caller's.
//
// A helper that is started with `go`, deferred, stored or called through an
// interface is not absorbed. On the confirmed tree nothing is absorbed.

var theWorld *World

func (w *World) absorbable(fn *ssa.Function) bool {
	if fn == nil || fn.Blocks == nil || fn.Parent() != nil || !w.ours(fn) {
		return false
	}
	if w.absorbMemo == nil {
		w.absorbMemo = map[*ssa.Function]bool{}
		w.callSitesOf = map[*ssa.Function][]*ssa.Call{}
		for _, g := range w.Funcs {
			for _, b := range g.Blocks {
				for _, in := range b.Instrs {
					if c, ok := in.(*ssa.Call); ok {
						if callee := c.Call.StaticCallee(); callee != nil && !c.Call.IsInvoke() {
							w.callSitesOf[callee] = append(w.callSitesOf[callee], c)
						}
					}
				}
			}
		}
	}
	if v, ok := w.absorbMemo[fn]; ok {
		return v
	}
	ok := !baselineFuncs[w.name(fn)] && !baselineFuncs[baseName(w.name(fn))] && len(w.callSitesOf[fn]) > 0
	// not recursive through itself
	if ok {
		for _, c := range w.callSitesOf[fn] {
			if c.Parent() == fn {
				ok = false
			}
		}
	}
	w.absorbMemo[fn] = ok
	return ok
}

// uniqueCallSite: the single plain call of an absorbable helper, if there is exactly one.
func (w *World) uniqueCallSite(fn *ssa.Function) *ssa.Call {
	if !w.absorbable(fn) {
		return nil
	}
	if cs := w.callSitesOf[fn]; len(cs) == 1 {
		return cs[0]
	}
	return nil
}

// absorbedIn lists the helpers absorbed (transitively) into fn.
func (w *World) absorbedIn(fn *ssa.Function) []*ssa.Function {
	var out []*ssa.Function
	seen := map[*ssa.Function]bool{fn: true}
	var walk func(g *ssa.Function, depth int)
	walk = func(g *ssa.Function, depth int) {
		if depth > 5 {
			return
		}
		for _, b := range g.Blocks {
			for _, in := range b.Instrs {
				c, ok := in.(*ssa.Call)
				if !ok || c.Call.IsInvoke() {
					continue
				}
				h := c.Call.StaticCallee()
				if h == nil || seen[h] || !w.absorbable(h) {
					continue
				}
				seen[h] = true
				out = append(out, h)
				walk(h, depth+1)
				for _, a := range h.AnonFuncs {
					_ = a
				}
			}
		}
	}
	walk(fn, 0)
	return out
}

// hostOf: the function a site inside fn is attributed to — fn itself, or, for an
// absorbed helper with a single call site, the (host of the) function that calls it.
func (w *World) hostOf(fn *ssa.Function) *ssa.Function {
	for i := 0; i < 6 && fn != nil; i++ {
		top := fn
		for top.Parent() != nil {
			top = top.Parent()
		}
		c := w.uniqueCallSite(top)
		if c == nil {
			return fn
		}
		if top != fn {
			// a closure inside an absorbed helper: attribute to the caller as well
			fn = c.Parent()
			continue
		}
		fn = c.Parent()
	}
	return fn
}

// absorbedResult: result #i of a call to an extracted helper, when every return
// of the helper that yields a meaningful value yields the same one (other
// returns give nil / the zero value, as error paths do). nil otherwise.
func (w *World) absorbedResult(c *ssa.Call, i int) ssa.Value {
	if c.Call.IsInvoke() {
		return nil
	}
	h := c.Call.StaticCallee()
	if h == nil || w.uniqueCallSite(h) == nil {
		return nil
	}
	var val ssa.Value
	for _, b := range h.Blocks {
		if len(b.Instrs) == 0 {
			continue
		}
		r, ok := b.Instrs[len(b.Instrs)-1].(*ssa.Return)
		if !ok || i >= len(r.Results) {
			continue
		}
		v := retOperand(r, i)
		// a function with defers returns through result cells: what was stored
		// into the cell is what is returned
		var cands []ssa.Value
		if u, ok := v.(*ssa.UnOp); ok {
			if al, ok := u.X.(*ssa.Alloc); ok && al.Parent() == h {
				for _, ref := range *al.Referrers() {
					if st, ok := ref.(*ssa.Store); ok && st.Addr == ssa.Value(al) {
						cands = append(cands, st.Val)
					}
				}
			}
		}
		if len(cands) == 0 {
			cands = []ssa.Value{v}
		}
		for _, cv := range cands {
			if k, isC := cv.(*ssa.Const); isC && (k.IsNil() || k.Value == nil) {
				continue
			}
			if val != nil && val != cv {
				return nil
			}
			val = cv
		}
	}
	return val
}

// sigKey: receiver type and signature of a function, without its name.
func (w *World) sigKey(fn *ssa.Function) string {
	q := func(p *types.Package) string {
		if p.Path() == modulePath {
			return ""
		}
		return p.Name()
	}
	recv := ""
	if r := fn.Signature.Recv(); r != nil {
		recv = types.TypeString(r.Type(), q) + "."
	}
	return recv + types.TypeString(fn.Signature, q)
}

// resolveRenames: a function of the confirmed tree that no longer exists under
// its name, while exactly one function that did not exist then has the very
// same receiver and signature, has been renamed: the rules keep addressing it
// by the name they know (w.name answers with the old name).
func (w *World) resolveRenames() {
	present := map[string]bool{}
	for _, fn := range w.Funcs {
		present[w.rawName(fn)] = true
	}
	w.renamed = map[*ssa.Function]string{}
	for old, sig := range baselineSigs {
		if present[old] {
			continue
		}
		var cand []*ssa.Function
		for _, fn := range w.Funcs {
			if fn.Parent() != nil || baselineFuncs[w.rawName(fn)] {
				continue
			}
			if w.sigKey(fn) == sig {
				cand = append(cand, fn)
			}
		}
		if len(cand) == 1 {
			w.renamed[cand[0]] = old
		}
	}
}
