package main

import (
	"fmt"
	"go/token"
	"go/types"
	"sort"
	"strings"

	"golang.org/x/tools/go/ssa"
)

// C08 — Stop's contract; C09 — bounded backpressure; C10 — flush triggers.

func init() {
	register("C08", checkC08)
	register("C09", checkC09)
	register("C10", checkC10)
}

func checkC08(w *World, r *Report, tier string) propMeta {
	c08R1(w, r)
	c05R10(w, r, "C08.R1b")
	c08R2(w, r)
	c08R3R4(w, r)
	c08R5(w, r)
	c08R6(w, r)
	c05R9(w, r) // the flush worker exits only after draining what was queued: after the deadline its queued waiters still get the abandonment error
	return propMeta{
		explanation: "Stop's contract as path and ownership rules: (R1) IngestRows/Flush return the ErrEngineStopped object on the stopped-true edge read under stateMu, and every ingest-queue send sits in the stopped-checked lock window; (R2) Stop returns nil only after receiving from a channel closed only after wg.Wait, with wg.Add(2) before both worker starts and a deferred wg.Done in each worker; (R3) the deadline is armed (context.AfterFunc(ctx, flushCancel)) before Stop takes the state lock; (R4) every non-nil return of Stop is preceded on its path by a direct call of flushCancel — registration through AfterFunc alone is not enough for late-running context implementations; (R5) every store call in handleFlush follows the nil edge of its entry ctx.Err() check and the worker passes flushCtx; (R6) every channel send in the write-path region is a select case with a Done() alternative or a default, and the waiter sends use the flush context.",
		notDecided:  "'returns by roughly that deadline' (timing: the wait for stateMu.Lock is bounded only by the pipeline unwinding); behaviour of ctx-ignoring stores once a call is in flight.",
	}
}

func c08R1(w *World, r *Report) {
	const rule = "C08.R1"
	r.rule(rule, "refuses new work: a function that sends on ingestChan returns the ErrEngineStopped object on the stopped-true edge", 2)
	fnSet := map[*ssa.Function]bool{}
	for _, op := range w.chanOps() {
		if op.Key == fieldIngestChan && (op.Kind == "selsend" || op.Kind == "send") {
			fnSet[op.Fn] = true
		}
	}
	for fn := range fnSet {
		cl := &Classifier{Cond: func(c Cond, taken bool) *Event {
			if c.Op == "truth" && taken && strings.HasSuffix(w.path(c.X), ".stopped") {
				return ev("stoppedTrue")
			}
			return nil
		}}
		fl := newFlow(w, fn, cl)
		n := 0
		// the function's own returns, and those of helpers extracted from it
		// (the stopped test may live in a shared enqueue helper whose error the
		// function hands back)
		rets := fl.Returns()
		for _, h := range w.absorbedIn(fn) {
			for _, b := range h.Blocks {
				if len(b.Instrs) > 0 {
					if rr, ok := b.Instrs[len(b.Instrs)-1].(*ssa.Return); ok && len(rr.Results) > 0 {
						rets = append(rets, rr)
					}
				}
			}
		}
		for _, ret := range rets {
			stoppedEdge := false
			for _, d := range fl.Disjuncts(ret) {
				if d.Must("stoppedTrue") {
					stoppedEdge = true
				}
			}
			if f := fl.Before(ret); f == nil || (!f.Must("stoppedTrue") && !(ret.Parent() != fn && stoppedEdge)) {
				continue
			}
			n++
			v := retOperand(ret, len(ret.Results)-1)
			r.check(w.path(v) == "g:ErrEngineStopped", rule, w.name(fn)+":stopped-return", w.instrPos(ret), "returns ErrEngineStopped", "on the stopped edge the function returns "+w.path(v)+" instead of ErrEngineStopped")
		}
		if n == 0 {
			r.bad(rule, w.name(fn)+":stopped-return", w.pos(fn.Pos()), "no return conditioned on stopped == true: work is accepted after Stop began")
		}
	}
}

func c08R2(w *World, r *Report) {
	const rule = "C08.R2"
	r.rule(rule, "Stop returns nil only after the workers finished: nil return follows a receive from a channel that is closed only after wg.Wait(); wg.Add(2) precedes both worker starts; each worker defers wg.Done at entry", 7)
	fn := fnOrUndecided(w, r, rule, "BloomSearchEngine.Stop")
	if fn == nil {
		return
	}
	doneKey := ""
	cl := &Classifier{SelCase: func(sel *ssa.Select, k int) *Event {
		dir, key, st := w.selState(sel, k)
		if dir == "recv" && st != nil {
			if _, isDone := w.isDoneChan(st.Chan); !isDone && strings.HasPrefix(key, "makechan@") {
				doneKey = key
				return ev("gotDone")
			}
		}
		return nil
	}}
	fl := newFlow(w, fn, cl)
	for i, ret := range fl.Returns() {
		if !isNilConst(retOperand(ret, 0)) {
			continue
		}
		f := fl.Before(ret)
		r.check(f.Must("gotDone"), rule, fmt.Sprintf("Stop:return-nil#%d", i), w.instrPos(ret), "nil only after the workers-done signal", "Stop returns nil on a path that did not wait for the workers: accepted batches may still be unanswered")
	}
	// the done channel is closed only after wg.Wait
	nClose := 0
	for _, op := range w.chanOps() {
		if op.Kind != "close" || op.Key != doneKey || doneKey == "" {
			continue
		}
		nClose++
		cfl := newFlow(w, op.Fn, &Classifier{Call: func(site ssa.Instruction, c *ssa.CallCommon) *Event {
			if w.calleeName(c) == "(*sync.WaitGroup).Wait" && strings.HasSuffix(w.path(c.Args[0]), ".wg") {
				return ev("waited")
			}
			return nil
		}})
		ff := cfl.Before(op.Instr)
		r.check(ff != nil && ff.Must("waited"), rule, "close(done)@"+w.name(op.Fn), w.instrPos(op.Instr), "closed after wg.Wait()", "the workers-done channel is closed without waiting for the WaitGroup")
	}
	if nClose == 0 {
		r.bad(rule, "close(done)", w.pos(fn.Pos()), "the channel Stop waits on is never closed (or cannot be identified)")
	}
	// wg.Add(2) precedes both go's wherever workers are started
	for _, host := range []string{"BloomSearchEngine.Start", "BloomSearchEngine.Stop"} {
		hf := w.fn(host)
		if hf == nil {
			continue
		}
		hfl := newFlow(w, hf, &Classifier{Call: func(site ssa.Instruction, c *ssa.CallCommon) *Event {
			if w.calleeName(c) == "(*sync.WaitGroup).Add" && strings.HasSuffix(w.path(c.Args[0]), ".wg") {
				if n, ok := constInt(c.Args[1]); ok && n == 2 {
					return ev("added2")
				}
			}
			return nil
		}})
		eachInstr(hf, func(in ssa.Instruction) {
			g, ok := in.(*ssa.Go)
			if !ok {
				return
			}
			for _, wk := range []string{"BloomSearchEngine.ingestWorker", "BloomSearchEngine.flushWorker"} {
				if w.isCallTo(&g.Call, wk) {
					ff := hfl.Before(in)
					r.check(ff.Must("added2"), rule, host+":go:"+wk, w.instrPos(in), "wg.Add(2) before the start", "a worker is started without the matching wg.Add: Stop's wait can return before the worker finished")
				}
			}
		})
	}
	for _, wk := range []string{"BloomSearchEngine.ingestWorker", "BloomSearchEngine.flushWorker"} {
		wf := w.fn(wk)
		if wf == nil {
			continue
		}
		okc := false
		for _, in := range wf.Blocks[0].Instrs {
			d, ok := in.(*ssa.Defer)
			if !ok {
				continue
			}
			if w.calleeName(&d.Call) == "(*sync.WaitGroup).Done" {
				okc = true
			}
			if callee := w.staticCallee(&d.Call); callee != nil && w.ours(callee) {
				// every return of the deferred closure passes wg.Done
				dfl := newFlow(w, callee, &Classifier{Call: func(site ssa.Instruction, c *ssa.CallCommon) *Event {
					if w.calleeName(c) == "(*sync.WaitGroup).Done" {
						return ev("done")
					}
					return nil
				}})
				all := true
				for _, ret := range dfl.Returns() {
					if !dfl.Before(ret).Must("done") {
						all = false
					}
				}
				if all && len(dfl.Returns()) > 0 {
					okc = true
				}
			}
		}
		r.check(okc, rule, wk+":defer-wg.Done", w.pos(wf.Pos()), "worker defers wg.Done at entry", "the worker does not unconditionally defer wg.Done: Stop can hang or return early")
	}
}

func c08R3R4(w *World, r *Report) {
	r.rule("C08.R3", "deadline armed first: context.AfterFunc(ctx, b.flushCancel) precedes stateMu.Lock() in Stop", 1)
	r.rule("C08.R4", "cancellation happens-before the deadline return: every non-nil return of Stop is preceded on its path by a direct call of b.flushCancel", 1)
	fn := fnOrUndecided(w, r, "C08.R3", "BloomSearchEngine.Stop")
	if fn == nil {
		return
	}
	cl := &Classifier{Call: func(site ssa.Instruction, c *ssa.CallCommon) *Event {
		n := w.calleeName(c)
		if n == "context.AfterFunc" && len(c.Args) == 2 && w.path(c.Args[0]) == "p:ctx" && w.path(c.Args[1]) == "p:b.flushCancel" {
			return ev("armed")
		}
		if n == "dyn:p:b.flushCancel" {
			if _, ok := site.(*ssa.Call); ok {
				return ev("flushCancelled")
			}
		}
		return nil
	}}
	fl := newFlow(w, fn, cl)
	nLock := 0
	eachInstr(fn, func(in ssa.Instruction) {
		if c, ok := in.(*ssa.Call); ok && w.calleeName(&c.Call) == "(*sync.RWMutex).Lock" && strings.HasSuffix(w.path(c.Call.Args[0]), ".stateMu") {
			nLock++
			r.check(fl.Before(in).Must("armed"), "C08.R3", "Stop:stateMu.Lock", w.instrPos(in), "AfterFunc registered before the lock", "Stop can block on stateMu (callers stuck on a full ingest buffer hold the read lock) before its deadline abort is armed: the deadline cannot be honoured")
		}
	})
	if nLock == 0 {
		r.undecided("C08.R3", "Stop:stateMu.Lock", w.pos(fn.Pos()), "no stateMu.Lock in Stop")
	}
	n := 0
	for _, ret := range fl.Returns() {
		v := retOperand(ret, 0)
		if isNilConst(v) {
			continue
		}
		n++
		r.check(fl.Before(ret).Must("flushCancelled"), "C08.R4", "Stop:return-deadline-error", w.instrPos(ret), "flushCancel called directly before the error return", "Stop returns its deadline error without having cancelled flush work itself: with a context whose AfterFunc runs late, queued flushes still call CreateFile/Update after Stop returned")
	}
	if n == 0 {
		r.undecided("C08.R4", "Stop:return-deadline-error", w.pos(fn.Pos()), "Stop has no non-nil return")
	}
}

func c08R5(w *World, r *Report) {
	const rule = "C08.R5"
	r.rule(rule, "queued flushes refuse to start: every store call in handleFlush (and its cleanup closure's call sites) follows the nil edge of the entry ctx.Err() check on the flush context; flushWorker and ingestWorker pass b.flushCtx", 12)
	fn := fnOrUndecided(w, r, rule, "BloomSearchEngine.handleFlush")
	if fn == nil {
		return
	}
	cl := combine(namedCalls(w, storeCalls), &Classifier{CallEdge: func(call ssa.Value, outcome string) *Event {
		if c, ok := call.(*ssa.Call); ok && w.calleeName(&c.Call) == "context.Context.Err" && w.path(c.Call.Value) == "p:ctx" {
			if outcome == "ok" {
				return ev("ctxlive")
			}
			return ev("ctxdead")
		}
		return nil
	}})
	fl := newFlow(w, fn, cl)
	// every answer — including the nil ack of an ack-only request — is given only
	// while the flush context was live at entry; once the deadline has cancelled
	// it, waiters get the abandonment error, never a success
	for _, a := range answerSites(w) {
		if a.fn != fn {
			continue
		}
		f := fl.Before(a.call)
		key := "handleFlush:answer(" + describeErrValue(w, a.value) + errTextKey(w, a.value) + ")"
		switch {
		case f.Must("ctxlive"):
			r.ok(rule, key, w.instrPos(a.call), "answered while the flush context is live")
		case f.Must("ctxdead"):
			r.check(!isNilConst(a.value) && w.nonNilAt(a.value, a.call), rule, key, w.instrPos(a.call), "abandonment answered with a non-nil error", "after the Stop deadline a queued request is answered with a value that may be nil: the waiter reads success for work that was abandoned")
		default:
			r.bad(rule, key, w.instrPos(a.call), "waiters are answered before the entry ctx.Err() check: after the Stop deadline cancelled flush work a queued (ack-only) request still reports success instead of the abandonment error")
		}
	}
	eachInstr(fn, func(in ssa.Instruction) {
		c := callOf(in)
		if c == nil {
			return
		}
		n := w.calleeName(c)
		isStore := false
		switch n {
		case "DataStore.CreateFile", "DataStore.TombstoneFile", "MetaStore.Update", "io.WriteCloser.Close", "io.WriteCloser.Write", "WriteFileFooter", "blockFilterRegionWriter.finish", "BloomSearchEngine.abortFileWriter":
			isStore = true
		}
		if callee := w.staticCallee(c); callee != nil && callee.Parent() == fn {
			isStore = true // the cleanup closure
		}
		if !isStore {
			return
		}
		f := fl.Before(in)
		r.check(f != nil && f.Must("ctxlive"), rule, "handleFlush:"+n, w.instrPos(in), "store work only while the flush context is live at entry", n+" is reachable without passing the entry ctx.Err() check: a flush queued behind the Stop deadline would still start store work")
	})
	for _, spec := range []struct{ callee, host string }{{"BloomSearchEngine.handleFlush", "flushWorker"}, {"BloomSearchEngine.processIngestRequest", "ingestWorker"}} {
		for _, s := range w.callSites(spec.callee) {
			c := callOf(s.Instr)
			r.check(len(c.Args) > 1 && w.path(c.Args[1]) == "p:b.flushCtx", rule, spec.host+"->"+spec.callee+":ctx", w.instrPos(s.Instr), "runs under flushCtx", spec.callee+" is run with "+w.path(c.Args[1])+" instead of the flush context: the Stop deadline cannot abort it (or engine cancellation aborts accepted work)")
		}
	}
}

func c08R6(w *World, r *Report) {
	const rule = "C08.R6"
	r.rule(rule, "nothing in the write path blocks without the flush context: every channel send in the region is a select case with a Done() alternative or a default; answer helpers receive the function's flush context", 12)
	region := writePathRegion(w)
	for _, op := range w.chanOps() {
		if !region[op.Fn] {
			continue
		}
		switch op.Kind {
		case "send":
			r.bad(rule, "baresend@"+w.name(op.Fn), w.instrPos(op.Instr), "a bare channel send in the write path: a stuck receiver wedges the pipeline beyond the Stop deadline")
		case "selsend":
			okc := !op.Sel.Blocking
			for _, st := range op.Sel.States {
				if _, isDone := w.isDoneChan(st.Chan); isDone && st.Dir == types.RecvOnly {
					okc = true
				}
			}
			r.check(okc, rule, "send@"+w.name(op.Fn)+":"+op.Key, w.instrPos(op.Instr), "send can be abandoned on cancellation", "a blocking select send without a Done() case")
		case "recv":
			// receives in the region: only `<-doneChan` style waits are forbidden here; none expected
			r.bad(rule, "barerecv@"+w.name(op.Fn), w.instrPos(op.Instr), "a bare channel receive in the write path can block past the Stop deadline")
		}
	}
	for _, a := range answerSites(w) {
		c := callOf(a.call)
		p := w.path(c.Args[0])
		r.check(p == "p:ctx" || p == "p:b.flushCtx", rule, "answerctx@"+w.name(a.fn)+"("+describeErrValue(w, a.value)+errTextKey(w, a.value)+")", w.instrPos(a.call), "answer delivered under the flush context", "waiters are answered under "+p+": the delivery cannot be abandoned at the Stop deadline")
	}
}

// ---------------------------------------------------------------------------

func checkC09(w *World, r *Report, tier string) propMeta {
	c09R1(w, r)
	c07R4(w, r, "C09.R2")
	c07R1(w, r)
	c07R2(w, r)
	c09R3(w, r)
	c09R4(w, r)
	return propMeta{
		explanation: "Boundedness of accepted-but-unanswered work from the shape of the queues: (R1) ingestChan's capacity derives from config.IngestBufferSize (validated > 0), flushChan's capacity is a compile-time constant; (R2 = C07.R4, C07.R1, C07.R2) the enqueue blocks, there is one synchronous consumer and no goroutine per flush; (R3) the ingest-queue sends are blocking selects whose only alternative is the caller's ctx.Done(); (R4) no other container accumulates accepted work: an *ingestRequest is only sent on ingestChan or passed to processIngestRequest, a flushRequest only sent on flushChan or passed to handleFlush, and the parked waiter list is handed off whole at every flush trigger (C05.R4). Together these imply the bound IngestBufferSize + 1 (flushChan) + 1 (in flight) + one buffer's worth.",
		notDecided:  "The arithmetic of the bound itself and how many batches one buffer's worth is (depends on MaxBuffered* and batch sizes).",
	}
}

func c09R1(w *World, r *Report) {
	const rule = "C09.R1"
	r.rule(rule, "bounded queues: ingestChan is made with capacity config.IngestBufferSize on a path where that was validated > 0; flushChan's capacity is a constant", 2)
	fn := fnOrUndecided(w, r, rule, "NewBloomSearchEngine")
	if fn == nil {
		return
	}
	cl := &Classifier{Cond: func(c Cond, taken bool) *Event {
		lp := w.path(c.X)
		if strings.HasPrefix(lp, "p:config.") && isZero(c.Y) {
			if (c.Op == "<=" && !taken) || (c.Op == ">" && taken) {
				return ev("positive:" + lp)
			}
		}
		return nil
	}}
	fl := newFlow(w, fn, cl)
	found := map[string]bool{}
	for _, fa := range w.fieldAccesses("BloomSearchEngine") {
		if fa.Fn != fn || !fa.Write {
			continue
		}
		mc, ok := fa.Val.(*ssa.MakeChan)
		if !ok {
			continue
		}
		switch fa.Field {
		case "ingestChan":
			found["ingestChan"] = true
			lv := w.leaves(mc.Size)
			okc := len(lv) == 1 && lv["p:config.IngestBufferSize"] && fl.Before(mc).Must("positive:p:config.IngestBufferSize")
			r.check(okc, rule, "make(ingestChan)", w.instrPos(mc), "capacity = validated config.IngestBufferSize", "ingestChan's capacity is "+strings.Join(sortedKeys(lv), ",")+" (validated="+fmt.Sprint(fl.Before(mc).Must("positive:p:config.IngestBufferSize"))+"): the ingest queue is not the configured bound")
		case "flushChan":
			found["flushChan"] = true
			n, isConst := constInt(mc.Size)
			r.check(isConst && n >= 0 && n <= 16, rule, "make(flushChan)", w.instrPos(mc), fmt.Sprintf("constant capacity %d", n), "flushChan's capacity is not a small constant: queued flushes (each holding a buffer's worth of batches) are not bounded by construction")
		}
	}
	for _, f := range []string{"ingestChan", "flushChan"} {
		if !found[f] {
			r.undecided(rule, "make("+f+")", w.pos(fn.Pos()), "no make(chan) stored to "+f+" in the constructor")
		}
	}
	// the channels are never replaced after construction
	for _, fa := range w.fieldAccesses("BloomSearchEngine") {
		if fa.Write && (fa.Field == "ingestChan" || fa.Field == "flushChan") && fa.Fn != fn {
			r.bad(rule, "reassign:"+fa.Field+"@"+w.name(fa.Fn), w.instrPos(fa.Instr), fa.Field+" is reassigned outside the constructor")
		}
	}
}

func c09R3(w *World, r *Report) {
	const rule = "C09.R3"
	r.rule(rule, "ingest-queue sends block: each is a blocking select whose only alternative is the caller's ctx.Done()", 2)
	for _, op := range w.chanOps() {
		if op.Key != fieldIngestChan || (op.Kind != "selsend" && op.Kind != "send") {
			continue
		}
		if op.Sel == nil {
			r.ok(rule, "send@"+w.name(op.Fn), w.instrPos(op.Instr), "bare blocking send")
			continue
		}
		okc := op.Sel.Blocking
		for k, st := range op.Sel.States {
			if k == op.Case {
				continue
			}
			p, isDone := w.isDoneChan(st.Chan)
			if !isDone || p != "p:ctx" {
				okc = false
			}
		}
		r.check(okc, rule, "send@"+w.name(op.Fn), w.instrPos(op.Instr), "blocking select {ingestChan<-, <-ctx.Done()}", "the ingest enqueue does not block on a full queue (default case or foreign alternative): producers are not back-pressured")
	}
}

// c09R4: accepted work lives only in the two queues.
func c09R4(w *World, r *Report) {
	const rule = "C09.R4"
	r.rule(rule, "no side container: a *ingestRequest is only sent on ingestChan or passed to processIngestRequest; a flushRequest only sent on flushChan or passed to handleFlush", 6)
	isReqPtr := func(t types.Type) bool { return w.typeName(t) == "*ingestRequest" }
	isFlushReq := func(t types.Type) bool { return w.typeName(t) == "flushRequest" }
	for _, fn := range w.Funcs {
		var vals []ssa.Value
		for _, p := range fn.Params {
			if isReqPtr(p.Type()) || isFlushReq(p.Type()) {
				vals = append(vals, p)
			}
		}
		eachInstr(fn, func(in ssa.Instruction) {
			if v, ok := in.(ssa.Value); ok && (isReqPtr(v.Type()) || isFlushReq(v.Type())) {
				vals = append(vals, v)
			}
		})
		for _, v := range vals {
			refs := v.Referrers()
			if refs == nil {
				continue
			}
			for _, ref := range *refs {
				okc, what := true, ""
				switch x := ref.(type) {
				case *ssa.FieldAddr, *ssa.Field, *ssa.DebugRef, *ssa.Phi, *ssa.Extract:
				case *ssa.UnOp:
				case *ssa.Store:
					if x.Val == v {
						// storing the request somewhere: only into its own single-store cell (captured param)
						if a, ok := x.Addr.(*ssa.Alloc); ok && singleStoredValue(a) != nil {
							break
						}
						okc, what = false, "stored to "+w.path(x.Addr)
					}
				case *ssa.Select:
					for _, st := range x.States {
						if st.Send == v {
							key := w.chanKey(st.Chan)
							if key != fieldIngestChan && key != fieldFlushChan {
								okc, what = false, "sent on "+key
							}
						}
					}
				case *ssa.Send:
					okc, what = false, "bare send on "+w.chanKey(x.Chan)
				case *ssa.Call:
					if !w.isCallTo(&x.Call, "BloomSearchEngine.processIngestRequest", "BloomSearchEngine.handleFlush") {
						// a helper extracted later is part of its caller: its own
						// uses of the request are judged by this same rule (it is
						// in w.Funcs), so handing the request to it is not an escape
						if g := w.staticCallee(&x.Call); g == nil || !w.absorbable(g) {
							okc, what = false, "passed to "+w.calleeName(&x.Call)
						}
					}
				case *ssa.Go, *ssa.Defer:
					okc, what = false, "passed to a go/defer call"
				case *ssa.MapUpdate:
					okc, what = false, "stored in a map"
				case *ssa.MakeInterface:
					okc, what = false, "converted to an interface (escapes)"
				case *ssa.MakeClosure:
					okc, what = false, "captured by a closure"
				case *ssa.BinOp, *ssa.If:
				default:
					okc, what = false, fmt.Sprintf("used by %T", ref)
				}
				if !okc {
					r.bad(rule, "escape@"+w.name(fn)+":"+w.typeName(v.Type()), w.instrPos(ref), "accepted work ("+w.typeName(v.Type())+") is "+what+": it can accumulate outside the two bounded queues")
				}
			}
			kind := fmt.Sprintf("%T", v)
			r.ok(rule, "uses@"+w.name(fn)+":"+w.typeName(v.Type())+":"+kind[strings.LastIndex(kind, ".")+1:], w.pos(fn.Pos()), "only field access, queue send or handler call")
		}
	}
}

// ---------------------------------------------------------------------------

func checkC10(w *World, r *Report, tier string) propMeta {
	c10R1(w, r)
	c10R2(w, r)
	return propMeta{
		explanation: "Trigger wiring: (R1) for each of MaxRowGroupRows, MaxRowGroupBytes, MaxBufferedRows, MaxBufferedBytes, MaxBufferedTime there is a non-strict comparison counter >= config.L in processIngestRequest whose counter derives from the matching quantity, and from whose true edge every path to a return passes flushBufferedData (decided per valuation of the shouldFlush flag, so the flag's later test is not blurred); counters advance once per buffered row; (R2) ingestWorker's select has a ticker case with a constant period from which the elapsed-time comparison reaches flushBufferedData before the next select; bufferStartTime is set before the first row is buffered and reset only by flushBufferedData.",
		notDecided:  "The latency bound itself (wall clock, scheduling, store responsiveness).",
	}
}

var c10Limits = []struct{ limit, counter string }{
	{"MaxRowGroupRows", ".rowCount"},
	{"MaxRowGroupBytes", ".uncompressedSize"},
	{"MaxBufferedRows", "*p:bufferedRowCount"},
	{"MaxBufferedBytes", "*p:bufferedBytes"},
	{"MaxBufferedTime", "time.Since"},
}

// limitCond recognises `counter >= b.config.L` (or its mirror) and reports L
// and whether the comparison is the non-strict one.
func limitCond(w *World, c Cond) (limit string, counter ssa.Value, nonStrict bool, ok bool) {
	if c.Y == nil {
		return
	}
	lx, ly := w.path(c.X), w.path(c.Y)
	const pre = "p:b.config."
	switch {
	case strings.HasPrefix(ly, pre):
		return strings.TrimPrefix(ly, pre), c.X, c.Op == ">=", true
	case strings.HasPrefix(lx, pre):
		return strings.TrimPrefix(lx, pre), c.Y, c.Op == "<=", true
	}
	return
}

func counterMatches(w *World, v ssa.Value, want string) bool {
	for l := range w.leaves(v) {
		if want == "time.Since" {
			if strings.HasPrefix(l, "call:time.Since@") {
				return true
			}
			continue
		}
		if strings.HasSuffix(l, want) {
			return true
		}
	}
	return false
}

func c10R1(w *World, r *Report) {
	const rule = "C10.R1"
	r.rule(rule, "every limit is a live, non-strict trigger whose true edge always reaches flushBufferedData before processIngestRequest returns; counters advance per buffered row", 16)
	fn := fnOrUndecided(w, r, rule, "BloomSearchEngine.processIngestRequest")
	if fn == nil {
		return
	}
	seen := map[string]string{}
	cl := &Classifier{
		Cond: func(c Cond, taken bool) *Event {
			limit, counter, nonStrict, ok := limitCond(w, c)
			if !ok {
				return nil
			}
			for _, l := range c10Limits {
				if l.limit == limit {
					switch {
					case !counterMatches(w, counter, l.counter):
						seen[limit] = "compares " + strings.Join(sortedKeys(w.leaves(counter)), ",") + " instead of the " + l.counter + " counter"
					case strings.HasPrefix(l.counter, ".") && !strings.HasPrefix(w.path(counter), "p:partitionBuffers[next(range("):
						seen[limit] = "is tested on " + w.path(counter) + ", not on the buffer of the partition the loop has just filled: a touched partition that reached the limit can go untested"
					case !nonStrict:
						seen[limit] = "uses " + c.Op + " (the limit itself must trigger: >=)"
					default:
						if _, had := seen[limit]; !had {
							seen[limit] = ""
						}
					}
					hit := (c.Op == ">=" || c.Op == ">" || c.Op == "==") == taken
					if strings.HasPrefix(w.path(c.X), "p:b.config.") {
						hit = (c.Op == "<=" || c.Op == "<" || c.Op == "==") == taken
					}
					if hit {
						return &Event{May: []string{"hit:" + limit}}
					}
				}
			}
			return nil
		},
		Call: func(site ssa.Instruction, c *ssa.CallCommon) *Event {
			if w.isCallTo(c, "BloomSearchEngine.flushBufferedData") {
				return ev("flushed")
			}
			return nil
		},
		CallEdge: func(call ssa.Value, outcome string) *Event {
			if c, ok := call.(*ssa.Call); ok && w.calleeName(&c.Call) == "io.Writer.Write" && outcome == "fail" {
				return ev("fail:bufwrite")
			}
			return nil
		},
	}
	fl := newFlow(w, fn, cl)
	for _, l := range c10Limits {
		msg, ok := seen[l.limit]
		if !ok {
			r.bad(rule, "trigger:"+l.limit, w.pos(fn.Pos()), "no comparison against config."+l.limit+" in processIngestRequest: the limit never triggers a flush")
			continue
		}
		if msg != "" {
			r.bad(rule, "trigger:"+l.limit, w.pos(fn.Pos()), "config."+l.limit+" "+msg)
			continue
		}
		// path obligation per return, per flag valuation
		bad := ""
		for _, ret := range fl.Returns() {
			for _, d := range fl.Disjuncts(ret) {
				if d.May("hit:"+l.limit) && !d.Must("flushed") && !d.Must("fail:bufwrite") {
					bad = w.instrPos(ret)
				}
			}
		}
		r.check(bad == "", rule, "trigger:"+l.limit, w.pos(fn.Pos()), "non-strict comparison on the matching counter; its true edge always reaches flushBufferedData", "after config."+l.limit+" is reached, processIngestRequest can return (at "+bad+") without calling flushBufferedData")
	}
	// every limit check is live: the conditions that decide whether a limit
	// comparison runs at all are only loop conditions, error tests, the
	// already-decided flag, other limit comparisons, and the request-shape tests
	// that precede buffering (force flush, empty batch, buffer-start bookkeeping)
	for _, b := range fn.Blocks {
		iff, ok := b.Instrs[len(b.Instrs)-1].(*ssa.If)
		if !ok {
			continue
		}
		cmp, ok := iff.Cond.(*ssa.BinOp)
		if !ok {
			continue
		}
		lim := ""
		for _, side := range []ssa.Value{cmp.X, cmp.Y} {
			if p := w.path(side); strings.HasPrefix(p, "p:b.config.Max") {
				lim = strings.TrimPrefix(p, "p:b.config.")
			}
		}
		isLimit := false
		for _, l := range c10Limits {
			if l.limit == lim {
				isLimit = true
			}
		}
		if !isLimit {
			continue
		}
		var odd []string
		for d := b; d != nil; d = d.Idom() {
			dom := d.Idom()
			if dom == nil {
				break
			}
			ci, ok := dom.Instrs[len(dom.Instrs)-1].(*ssa.If)
			if !ok {
				continue
			}
			controls := false
			for _, sb := range dom.Succs {
				if (sb == d || sb.Dominates(d)) && len(sb.Preds) == 1 {
					controls = true
				}
			}
			if !controls {
				continue
			}
			if !c10AllowedGuard(w, ci.Cond, dom) {
				odd = append(odd, w.path(ci.Cond)+" at "+w.instrPos(ci))
			}
		}
		r.check(len(odd) == 0, rule, "live:"+lim+"@"+w.instrPos(iff), w.instrPos(iff), "reached whenever rows are buffered and no flush is decided yet", "the comparison against config."+lim+" runs only when "+strings.Join(odd, "; ")+": under some configuration or state the limit is never tested and the buffered rows wait for another trigger")
	}
	// counters advance once per buffered row: the only store to each counter in
	// this function is a self-add inside the per-row loop (the innermost loop
	// around the row's indexRow call); row counters add 1, the two byte counters
	// add the same quantity
	var rowLoop *ssa.BasicBlock
	for _, in := range w.callSitesIn(fn, "bloomEntrySets.indexRow") {
		rowLoop = innermostHeader(in.Block())
	}
	if rowLoop == nil {
		r.undecided(rule, "counter:row-loop", w.pos(fn.Pos()), "per-row loop (around bloomEntrySets.indexRow) not found")
		return
	}
	added := map[string]string{}
	for _, cnt := range []string{"p:bufferedRowCount", "p:bufferedBytes", ".rowCount", ".uncompressedSize"} {
		n, other := 0, 0
		eachInstr(fn, func(in ssa.Instruction) {
			st, ok := in.(*ssa.Store)
			if !ok {
				return
			}
			p := w.path(st.Addr)
			if !(p == cnt || (strings.HasPrefix(cnt, ".") && strings.HasSuffix(p, cnt))) {
				return
			}
			if _, fresh := stripToAlloc(baseOfAddr(st.Addr)); fresh {
				return
			}
			b, isAdd := st.Val.(*ssa.BinOp)
			if !isAdd || b.Op != token.ADD {
				other++
				return
			}
			var rest []string
			self := false
			for l := range w.leaves(b) {
				if l == deref("&"+strings.TrimPrefix(p, "&")) || l == "*"+p || strings.HasSuffix(l, strings.TrimPrefix(cnt, "p:")) {
					self = true
				} else {
					rest = append(rest, l)
				}
			}
			if self && innermostHeader(st.Block()) == rowLoop {
				n++
				sort.Strings(rest)
				added[cnt] = strings.Join(rest, " + ")
			} else {
				other++
			}
		})
		r.check(n == 1 && other == 0, rule, "counter:"+cnt, w.pos(fn.Pos()), "advanced once inside the per-row loop, not written elsewhere", fmt.Sprintf("counter %s is advanced at %d sites inside the per-row loop and written at %d other sites (expected exactly one += per buffered row and no other write here): the trigger no longer tracks what is buffered", cnt, n, other))
	}
	r.check(added["p:bufferedRowCount"] == "const:1" && added[".rowCount"] == "const:1", rule, "counter:rows+=1", w.pos(fn.Pos()), "row counters add 1 per row", fmt.Sprintf("row counters add (%s) and (%s) per buffered row instead of 1", added["p:bufferedRowCount"], added[".rowCount"]))
	r.check(added["p:bufferedBytes"] != "" && added["p:bufferedBytes"] == added[".uncompressedSize"] && strings.Contains(added["p:bufferedBytes"], "len("), rule, "counter:bytes+=len(row)+prefix", w.pos(fn.Pos()), "byte counters add the row's length-prefixed size", fmt.Sprintf("byte counters add (%s) to the buffer and (%s) to the partition: they no longer agree on the row's size", added["p:bufferedBytes"], added[".uncompressedSize"]))
}

func c10R2(w *World, r *Report) {
	const rule = "C10.R2"
	r.rule(rule, "time trigger: ingestWorker selects on a constant-period ticker; from the elapsed >= MaxBufferedTime edge the worker calls flushBufferedData before its next select; bufferStartTime is set before the first buffered row and reset only in flushBufferedData", 4)
	fn := fnOrUndecided(w, r, rule, "BloomSearchEngine.ingestWorker")
	if fn == nil {
		return
	}
	tickerOK := false
	cl := &Classifier{
		SelCase: func(sel *ssa.Select, k int) *Event {
			dir, key, st := w.selState(sel, k)
			if dir == "recv" && st != nil && strings.HasSuffix(key, "Ticker.C") {
				return ev("tick")
			}
			_ = key
			return nil
		},
		Cond: func(c Cond, taken bool) *Event {
			limit, counter, nonStrict, ok := limitCond(w, c)
			if ok && limit == "MaxBufferedTime" && counterMatches(w, counter, "time.Since") {
				if !nonStrict {
					return nil
				}
				if taken {
					return &Event{May: []string{"due"}}
				}
			}
			return nil
		},
		Call: func(site ssa.Instruction, c *ssa.CallCommon) *Event {
			if w.isCallTo(c, "BloomSearchEngine.flushBufferedData") {
				return (&Event{}).kill("due")
			}
			return nil
		},
	}
	// ticker: time.NewTicker(const) whose .C is received in a select
	eachInstr(fn, func(in ssa.Instruction) {
		if c, ok := in.(*ssa.Call); ok && w.calleeName(&c.Call) == "time.NewTicker" {
			if k, ok := c.Call.Args[0].(*ssa.Const); ok && k.Value != nil {
				tickerOK = true
			}
		}
	})
	fl := newFlow(w, fn, cl)
	tickCase := false
	dueSeen := false
	eachInstr(fn, func(in ssa.Instruction) {
		if sel, ok := in.(*ssa.Select); ok {
			for k := range sel.States {
				if _, key, _ := w.selState(sel, k); strings.HasSuffix(key, "Ticker.C") {
					tickCase = true
				}
			}
		}
	})
	// nothing re-arms the ticker: a Reset (or Stop outside the deferred one) on
	// traffic would let a steady stream of requests postpone the tick forever
	nRearm := 0
	eachInstr(fn, func(in ssa.Instruction) {
		if _, isDefer := in.(*ssa.Defer); isDefer {
			return
		}
		if c := callOf(in); c != nil {
			switch w.calleeName(c) {
			case "(*time.Ticker).Reset", "(*time.Ticker).Stop":
				nRearm++
				r.bad(rule, "ingestWorker:ticker-rearmed", w.instrPos(in), "the flush-check ticker is reset or stopped inside the worker loop: requests that buffer nothing (empty or rejected batches) arriving faster than the period postpone the time check indefinitely, so buffered rows are not flushed by MaxBufferedTime")
			}
		}
	})
	if nRearm == 0 {
		r.ok(rule, "ingestWorker:ticker-never-rearmed", w.pos(fn.Pos()), "no Reset/Stop of the ticker besides the deferred Stop")
	}
	r.check(tickerOK && tickCase, rule, "ingestWorker:ticker", w.pos(fn.Pos()), "select case on a constant-period ticker", "the ingest actor no longer wakes on a constant-period ticker: buffered rows wait for the next batch or Flush")
	bad := ""
	for _, b := range fn.Blocks {
		for si := range b.Succs {
			if f := fl.EdgeFacts(b, si); f != nil && f.May("due") {
				dueSeen = true
			}
		}
	}
	eachInstr(fn, func(in ssa.Instruction) {
		switch in.(type) {
		case *ssa.Select, *ssa.Return:
			if f := fl.Before(in); f != nil && f.May("due") {
				bad = w.instrPos(in)
			}
		}
	})
	r.check(dueSeen && bad == "", rule, "ingestWorker:time-check", w.pos(fn.Pos()), "elapsed >= MaxBufferedTime reaches flushBufferedData", "the ticker's elapsed-time check (>= config.MaxBufferedTime on time.Since(bufferStartTime)) is missing or does not always lead to flushBufferedData")
	// bufferStartTime discipline
	if pf := w.fn("BloomSearchEngine.processIngestRequest"); pf != nil {
		pcl := &Classifier{
			CallEdge: func(call ssa.Value, outcome string) *Event {
				if c, ok := call.(*ssa.Call); ok && w.calleeName(&c.Call) == "(time.Time).IsZero" && strings.Contains(w.path(c.Call.Args[0]), "p:bufferStartTime") && outcome == "false" {
					return ev("startOK")
				}
				return nil
			},
			Instr: func(in ssa.Instruction) *Event {
				if st, ok := in.(*ssa.Store); ok && w.path(st.Addr) == "p:bufferStartTime" {
					if c, ok := st.Val.(*ssa.Call); ok && w.calleeName(&c.Call) == "time.Now" {
						return ev("startOK")
					}
				}
				return nil
			},
		}
		pfl := newFlow(w, pf, pcl)
		n := 0
		for _, in := range w.callSitesIn(pf, "io.Writer.Write") {
			n++
			r.check(pfl.Before(in).Must("startOK"), rule, fmt.Sprintf("processIngestRequest:start-before-buffer#%d", n), w.instrPos(in), "bufferStartTime known non-zero before rows are buffered", "rows can be buffered while bufferStartTime is still zero: the time trigger never fires for them")
		}
	}
	for _, fnn := range w.Funcs {
		eachInstr(fnn, func(in ssa.Instruction) {
			st, ok := in.(*ssa.Store)
			if !ok || w.path(st.Addr) != "p:bufferStartTime" {
				return
			}
			host := w.name(fnn)
			isNow := false
			if c, ok := st.Val.(*ssa.Call); ok && w.calleeName(&c.Call) == "time.Now" {
				isNow = true
			}
			okc := (host == "BloomSearchEngine.processIngestRequest" && isNow) || host == "BloomSearchEngine.flushBufferedData"
			r.check(okc, rule, "store(bufferStartTime)@"+host, w.instrPos(in), "set at first buffered row / reset at flush", "bufferStartTime is rewritten outside its two owners: the age of buffered rows is lost")
		})
	}
}

// c10AllowedGuard: conditions that may decide whether a limit comparison runs.
func c10AllowedGuard(w *World, cond ssa.Value, blk *ssa.BasicBlock) bool {
	for {
		if u, ok := cond.(*ssa.UnOp); ok && u.Op == token.NOT {
			cond = u.X
			continue
		}
		break
	}
	// loop conditions
	for _, p := range blk.Preds {
		if blk.Dominates(p) {
			return true
		}
	}
	switch x := cond.(type) {
	case *ssa.Phi: // the already-decided flag (a boolean accumulated from constants)
		return true
	case *ssa.Extract: // comma-ok of a map lookup / range-over-map has-next
		return true
	case *ssa.Call:
		n := w.calleeName(&x.Call)
		return strings.HasSuffix(n, ".IsZero") || strings.HasPrefix(n, "builtin.")
	case *ssa.UnOp: // a plain boolean load: only the request's own forceFlush
		return w.path(x) == "p:req.forceFlush"
	case *ssa.BinOp:
		for _, side := range []ssa.Value{x.X, x.Y} {
			if isErrorType(side.Type()) {
				return true
			}
			p := w.path(side)
			if strings.HasPrefix(p, "p:b.config.Max") || strings.HasPrefix(p, "len(") || strings.HasPrefix(p, "call:builtin.len") {
				return true
			}
			if _, isNil := side.(*ssa.Const); isNil && isNilConst(side) {
				return true
			}
		}
		// counters compared with constants (bufferedRowCount > 0)
		if _, isC := x.Y.(*ssa.Const); isC {
			px := w.path(x.X)
			if strings.HasPrefix(px, "*p:buffered") || strings.HasSuffix(px, ".rowCount") || strings.HasSuffix(px, ".uncompressedSize") {
				return true
			}
		}
	}
	return false
}
