package main

import (
	"fmt"
	"go/constant"
	"go/types"
	"reflect"
	"strings"

	"golang.org/x/tools/go/ssa"
)

// C25 — expression trees mean what they say and survive serialization.

func init() { register("C25", checkC25) }

var queryTypes = []string{"Query", "QueryPrefilter", "PrefilterExpression", "PrefilterCondition", "StringCondition", "NumericCondition", "BloomQuery", "BloomExpression", "BloomCondition", "RegexQuery", "RegexExpression", "RegexCondition"}

func checkC25(w *World, r *Report, tier string) propMeta {
	c25R1(w, r)
	c25R2(w, r)
	n := c25R3(w, r)
	c25R4(w, r)
	return propMeta{
		explanation: fmt.Sprintf("(R4) ownership: the child list a flatten function returns is backed by an array allocated in that call on every path, and And/Or store exactly that list — two trees never share mutable children storage. (R1) lossless JSON shape: every exported query type has only exported fields, no `json:\"-\"`, no renaming that collides, no custom (Un)MarshalJSON/Text method, and `omitempty` only on fields whose zero value every evaluator treats as absent (no evaluator distinguishes a nil from an empty slice of an omitempty field); (R2) flattening by abstract interpretation: each flatten function, run on an abstract child list, inlines exactly the children of same-type nodes without a condition and keeps every other child in order, and And/Or wrap the flattened list under their own type; (R3) builder semantics by abstract interpretation of call sequences: implicit calls are ANDed at Build, calls after Match are ANDed with the explicit tree, MatchPrefilter installs the given tree — %d abstract runs; the constant-case tables of the three expression families agree (C01.R3, C02.R4–R5).", n),
		notDecided:  "Evaluation equality over all trees on real data; encoding/json's own behaviour; one observation outside static reach: NewQuery().Field(\"a\").Match(x) discards Field(\"a\") while Match(x).Field(\"a\") ANDs it — whether that contradicts 'what the caller wrote' is a semantic question no rule here settles, so it is not claimed.",
	}
}

func c25R1(w *World, r *Report) {
	const rule = "C25.R1"
	r.rule(rule, "lossless JSON shape of the exported query types: exported fields only, no json:\"-\", no custom marshalers, omitempty only where nil/empty are indistinguishable to evaluators", 12)
	omitSliceFields := map[string]bool{}
	for _, tn := range queryTypes {
		obj := w.Pkg.Types.Scope().Lookup(tn)
		if obj == nil {
			r.undecided(rule, "type:"+tn, "-", "type not found")
			continue
		}
		st, ok := obj.Type().Underlying().(*types.Struct)
		if !ok {
			r.undecided(rule, "type:"+tn, "-", "not a struct")
			continue
		}
		bad := ""
		names := map[string]bool{}
		for i := 0; i < st.NumFields(); i++ {
			f := st.Field(i)
			tag := reflect.StructTag(st.Tag(i)).Get("json")
			name, opts, _ := strings.Cut(tag, ",")
			if !f.Exported() {
				bad = "field " + f.Name() + " is unexported: encoding/json drops it"
			}
			if name == "-" {
				bad = "field " + f.Name() + " is tagged json:\"-\": it does not survive serialization"
			}
			if name == "" {
				name = f.Name()
			}
			if names[strings.ToLower(name)] {
				bad = "two fields serialize under the name " + name
			}
			names[strings.ToLower(name)] = true
			if strings.Contains(opts, "omitempty") || strings.Contains(opts, "omitzero") {
				switch u := f.Type().Underlying().(type) {
				case *types.Slice:
					omitSliceFields[tn+"."+f.Name()] = true
				case *types.Pointer, *types.Map:
				case *types.Basic:
					_ = u
				default:
					bad = "omitempty on " + f.Name() + " of type " + f.Type().String() + " (zero value not recognisable)"
				}
			}
			if strings.Contains(opts, "string") {
				bad = "field " + f.Name() + " uses the ,string option (numbers re-typed)"
			}
		}
		// custom marshalers
		ms := types.NewMethodSet(types.NewPointer(obj.Type()))
		for i := 0; i < ms.Len(); i++ {
			switch ms.At(i).Obj().Name() {
			case "MarshalJSON", "UnmarshalJSON", "MarshalText", "UnmarshalText":
				bad = "custom " + ms.At(i).Obj().Name() + " method"
			}
		}
		r.check(bad == "", rule, "type:"+tn, w.pos(obj.Pos()), "round-trips field for field", tn+": "+bad)
	}
	// no evaluator distinguishes nil from empty for omitempty slices
	for _, fn := range w.Funcs {
		eachInstr(fn, func(in ssa.Instruction) {
			b, ok := in.(*ssa.BinOp)
			if !ok || !(isNilConst(b.X) || isNilConst(b.Y)) {
				return
			}
			v := b.X
			if isNilConst(b.X) {
				v = b.Y
			}
			if o, f, _, ok := w.structFieldOf(v); ok && omitSliceFields[o+"."+f] {
				r.bad(rule, "nil-vs-empty:"+o+"."+f+"@"+w.name(fn), w.instrPos(in), o+"."+f+" (omitempty) is compared with nil: an empty list serializes to nothing and decodes to nil, so evaluation can differ after a JSON round trip")
			}
		})
	}
}

// exprType names per family.
type family struct {
	typ       string
	flatten   string
	and, or   string
	andC, orC string
}

var families = []family{
	{"BloomExpression", "flattenExpressions", "And", "Or", "AND", "OR"},
	{"PrefilterExpression", "flattenPrefilterExpressions", "PrefilterAnd", "PrefilterOr", "AND", "OR"},
	{"RegexExpression", "flattenRegexExpressions", "RegexAnd", "RegexOr", "AND", "OR"},
}

func (w *World) exprTypes(v AVal, typ string) []string {
	var out []string
	if v.k != aSlice {
		return []string{"<" + v.String() + ">"}
	}
	for _, c := range v.cells {
		t := w.fieldOf(c.v, typ, "ExpressionType")
		if t.k == aConst && t.c.Kind() == constant.String {
			out = append(out, constant.StringVal(t.c))
		} else {
			out = append(out, "?")
		}
	}
	return out
}

func c25R2(w *World, r *Report) {
	const rule = "C25.R2"
	r.rule(rule, "flattening keeps every child: same-type nodes without a condition are replaced by their children in place, everything else is kept in order; And/Or wrap the flattened list under their own type", 9)
	for _, fam := range families {
		fn := fnOrUndecided(w, r, rule, fam.flatten)
		if fn == nil {
			continue
		}
		leaf := func(tag string) AVal {
			return w.objOf(fam.typ, map[string]AVal{"ExpressionType": aStr(tag)})
		}
		condObj := ptrTo(AVal{k: aObj, obj: &AObj{f: map[int]*ACell{}}})
		for _, op := range []string{fam.andC, fam.orC} {
			other := fam.orC
			if op == fam.orC {
				other = fam.andC
			}
			input := sliceOf(
				w.objOf(fam.typ, map[string]AVal{"ExpressionType": aStr(op), "Children": sliceOf(leaf("L1"), leaf("L2"))}),
				w.objOf(fam.typ, map[string]AVal{"ExpressionType": aStr(other), "Children": sliceOf(leaf("L3"))}),
				leaf("L4"),
				w.objOf(fam.typ, map[string]AVal{"ExpressionType": aStr(op), "Condition": condObj, "Children": sliceOf(leaf("L5"))}),
				w.objOf(fam.typ, map[string]AVal{"ExpressionType": aStr(op), "Children": sliceOf()}),
				leaf("L6"),
			)
			in := &interp{w: w}
			res, ab := in.run(fn, []AVal{input, aStr(op)})
			want := []string{"L1", "L2", other, "L4", op, "L6"}
			got := []string{}
			if ab == "" {
				got = w.exprTypes(res[0], fam.typ)
			}
			r.check(ab == "" && strings.Join(got, ",") == strings.Join(want, ","), rule, fam.flatten+":"+op, w.pos(fn.Pos()), "children inlined exactly where type matches and no condition is set", fmt.Sprintf("flattening [%s{L1,L2}, %s{L3}, L4, %s{cond}, %s{}, L6] under %s yields [%s] (%s), expected [%s]: a child is dropped, duplicated or wrongly inlined", op, other, op, op, op, strings.Join(got, ","), ab, strings.Join(want, ",")))
		}
		// wrappers
		for _, wr := range []struct{ fn, typ string }{{fam.and, fam.andC}, {fam.or, fam.orC}} {
			wf := fnOrUndecided(w, r, rule, wr.fn)
			if wf == nil {
				continue
			}
			in := &interp{w: w}
			res, ab := in.run(wf, []AVal{sliceOf(leaf("L1"), w.objOf(fam.typ, map[string]AVal{"ExpressionType": aStr(wr.typ), "Children": sliceOf(leaf("L2"), leaf("L3"))}))})
			okc := false
			got := ""
			if ab == "" && res[0].k == aObj {
				t := w.fieldOf(res[0], fam.typ, "ExpressionType")
				kids := w.exprTypes(w.fieldOf(res[0], fam.typ, "Children"), fam.typ)
				got = t.String() + "[" + strings.Join(kids, ",") + "]"
				okc = t.k == aConst && constant.StringVal(t.c) == wr.typ && strings.Join(kids, ",") == "L1,L2,L3"
			}
			r.check(okc, rule, wr.fn+":wraps-flattened", w.pos(wf.Pos()), wr.typ+"[L1,L2,L3]", wr.fn+"(L1, "+wr.typ+"{L2,L3}) builds "+got+" "+ab+", expected "+wr.typ+"[L1,L2,L3]")
		}
	}
}

// deref abstract pointer
func adr(v AVal) AVal {
	if v.k == aPtr {
		return v.cell.v
	}
	return v
}

func c25R3(w *World, r *Report) int {
	const rule = "C25.R3"
	r.rule(rule, "builder semantics: implicit bloom/regex calls are ANDed at Build; calls after Match/MatchRegex are ANDed with the explicit tree (flattened); MatchPrefilter installs the given tree", 6)
	total := 0
	newQ := w.fn("NewQuery")
	build := w.fn("QueryBuilder.Build")
	if newQ == nil || build == nil {
		r.undecided(rule, "anchor:builder", "-", "NewQuery/Build not found")
		return 0
	}
	type step struct {
		method string
		args   []AVal
	}
	run := func(name string, steps []step) (AVal, string) {
		total++
		in := &interp{w: w}
		res, ab := in.run(newQ, nil)
		if ab != "" {
			return AVal{}, "NewQuery: " + ab
		}
		b := res[0]
		for _, s := range steps {
			fn := w.fn("QueryBuilder." + s.method)
			if fn == nil {
				return AVal{}, "method " + s.method + " not found"
			}
			in2 := &interp{w: w}
			res, ab = in2.run(fn, append([]AVal{b}, s.args...))
			if ab != "" {
				return AVal{}, s.method + ": " + ab
			}
			if len(res) == 1 && res[0].k == aPtr {
				b = res[0]
			}
		}
		in3 := &interp{w: w}
		res, ab = in3.run(build, []AVal{b})
		if ab != "" {
			return AVal{}, "Build: " + ab
		}
		return adr(res[0]), ""
	}
	// describe a bloom/regex expression tree as a string
	var describe func(v AVal, typ string) string
	describe = func(v AVal, typ string) string {
		v = adr(v)
		if v.k == aNil {
			return "nil"
		}
		if v.k != aObj {
			return "?" + v.String()
		}
		t := w.fieldOf(v, typ, "ExpressionType")
		ts := "?"
		if t.k == aConst {
			ts = constant.StringVal(t.c)
		}
		if ts == "CONDITION" {
			c := adr(w.fieldOf(v, typ, "Condition"))
			ct := "BloomCondition"
			if typ == "RegexExpression" {
				ct = "RegexCondition"
			}
			f := w.fieldOf(c, ct, "Field")
			tok := w.fieldOf(c, ct, map[string]string{"BloomCondition": "Token", "RegexCondition": "Pattern"}[ct])
			fs, tks := "", ""
			if f.k == aConst {
				fs = constant.StringVal(f.c)
			}
			if tok.k == aConst {
				tks = constant.StringVal(tok.c)
			}
			return "cond(" + fs + "|" + tks + ")"
		}
		kids := w.fieldOf(v, typ, "Children")
		var ks []string
		if kids.k == aSlice {
			for _, c := range kids.cells {
				ks = append(ks, describe(c.v, typ))
			}
		}
		return ts + "[" + strings.Join(ks, ",") + "]"
	}
	field := func(name string) AVal {
		in := &interp{w: w}
		res, _ := in.run(w.fn("Field"), []AVal{aStr(name)})
		return res[0]
	}
	token := func(name string) AVal {
		in := &interp{w: w}
		res, _ := in.run(w.fn("Token"), []AVal{aStr(name)})
		return res[0]
	}
	combine2 := func(fn string, a, b AVal) AVal {
		in := &interp{w: w}
		res, _ := in.run(w.fn(fn), []AVal{sliceOf(a, b)})
		return res[0]
	}
	bloomOf := func(q AVal) string {
		bq := adr(w.fieldOf(q, "Query", "Bloom"))
		return describe(w.fieldOf(bq, "BloomQuery", "Expression"), "BloomExpression")
	}
	regexOf := func(q AVal) string {
		rq := adr(w.fieldOf(q, "Query", "Regex"))
		return describe(w.fieldOf(rq, "RegexQuery", "Expression"), "RegexExpression")
	}
	cases := []struct {
		name  string
		steps []step
		get   func(AVal) string
		want  string
	}{
		{"implicit-and", []step{{"Field", []AVal{aStr("a")}}, {"Token", []AVal{aStr("b")}}}, bloomOf, "AND[cond(a|),cond(|b)]"},
		{"implicit-single", []step{{"FieldToken", []AVal{aStr("a"), aStr("b")}}}, bloomOf, "AND[cond(a|b)]"},
		{"match-or-then-field", []step{{"Match", []AVal{combine2("Or", field("a"), token("b"))}}, {"Field", []AVal{aStr("c")}}}, bloomOf, "AND[OR[cond(a|),cond(|b)],cond(c|)]"},
		{"match-and-then-field-flattens", []step{{"Match", []AVal{combine2("And", field("a"), token("b"))}}, {"Field", []AVal{aStr("c")}}}, bloomOf, "AND[cond(a|),cond(|b),cond(c|)]"},
		{"empty", nil, bloomOf, "nil"},
		{"regex-implicit-and", []step{{"FieldRegex", []AVal{aStr("f"), aStr("p")}}, {"FieldRegex", []AVal{aStr("g"), aStr("q")}}}, regexOf, "AND[cond(f|p),cond(g|q)]"},
	}
	for _, c := range cases {
		q, ab := run(c.name, c.steps)
		got := ""
		if ab == "" {
			got = c.get(q)
		}
		r.check(ab == "" && got == c.want, rule, "builder:"+c.name, w.pos(build.Pos()), "= "+c.want, "builder sequence "+c.name+" builds "+got+" "+ab+", expected "+c.want+": the query does not mean what the chain says")
	}
	// MatchPrefilter installs the tree
	{
		in := &interp{w: w}
		pe := w.objOf("PrefilterExpression", map[string]AVal{"ExpressionType": aStr("MARK")})
		q, ab := run("matchprefilter", []step{{"MatchPrefilter", []AVal{pe}}})
		got := ""
		if ab == "" {
			pf := adr(w.fieldOf(q, "Query", "Prefilter"))
			e := adr(w.fieldOf(pf, "QueryPrefilter", "Expression"))
			t := w.fieldOf(e, "PrefilterExpression", "ExpressionType")
			got = t.String()
		}
		_ = in
		r.check(ab == "" && got == "\"MARK\"", rule, "builder:matchprefilter", w.pos(build.Pos()), "prefilter tree installed as given", "MatchPrefilter does not install the given tree ("+got+" "+ab+")")
	}
	return total
}

// sliceOrigins: where the backing array of a slice value can come from —
// "fresh" (make, or append growing from nil), or the description of anything
// else (a parameter, a load from memory the caller can also reach).
func sliceOrigins(w *World, v ssa.Value, seen map[ssa.Value]bool, out map[string]bool) {
	if v == nil || seen[v] {
		return
	}
	seen[v] = true
	switch x := v.(type) {
	case *ssa.MakeSlice:
		out["fresh"] = true
		return
	case *ssa.Const:
		if x.IsNil() {
			out["fresh"] = true // append to nil allocates
			return
		}
	case *ssa.Phi:
		for _, e := range x.Edges {
			sliceOrigins(w, e, seen, out)
		}
		return
	case *ssa.Slice:
		if a, ok := x.X.(*ssa.Alloc); ok && a.Heap {
			// a composite literal []T{...}: new array sliced whole
			out["fresh"] = true
			return
		}
		sliceOrigins(w, x.X, seen, out)
		return
	case *ssa.ChangeType:
		sliceOrigins(w, x.X, seen, out)
		return
	case *ssa.Call:
		if b, ok := x.Call.Value.(*ssa.Builtin); ok && b.Name() == "append" {
			sliceOrigins(w, x.Call.Args[0], seen, out) // may extend the base in place
			return
		}
		if callee := w.staticCallee(&x.Call); callee != nil && strings.HasPrefix(callee.Name(), "flatten") {
			out["fresh"] = true // checked on its own
			return
		}
		if n := w.calleeName(&x.Call); strings.HasPrefix(n, "slices.Clone") || n == "bytes.Clone" {
			out["fresh"] = true // the standard library's copying helpers
			return
		}
	}
	out[w.path(v)] = true
}

// c25R4: constructors never let two trees share a mutable child list.
func c25R4(w *World, r *Report) {
	const rule = "C25.R4"
	r.rule(rule, "no shared child lists: the slice each flatten function returns is backed by an array allocated in that call (make, or append from nil) on every path — never an argument's own Children — and And/Or store exactly that slice", 11)
	for _, name := range []string{"flattenExpressions", "flattenPrefilterExpressions", "flattenRegexExpressions"} {
		fn := fnOrUndecided(w, r, rule, name)
		if fn == nil {
			continue
		}
		for i, ret := range newFlow(w, fn, &Classifier{}).Returns() {
			out := map[string]bool{}
			sliceOrigins(w, retOperand(ret, 0), map[ssa.Value]bool{}, out)
			delete(out, "fresh")
			r.check(len(out) == 0, rule, fmt.Sprintf("%s:return#%d", name, i), w.instrPos(ret), "freshly allocated on every path", "the returned child list can share its backing array with "+strings.Join(sortedKeys(out), ", ")+": appending to a tree built from a shared base overwrites a child of another tree built from the same base — that tree no longer means what its caller wrote")
		}
	}
	// every store to a Children field of an expression type, anywhere in the package
	stored := map[string]int{}
	for _, fn := range w.Funcs {
		if fn.Pkg == nil || fn.Pkg.Pkg.Path() != modulePath {
			continue
		}
		eachInstr(fn, func(in ssa.Instruction) {
			st, ok := in.(*ssa.Store)
			if !ok {
				return
			}
			owner, field, _, ok := w.structFieldOf(st.Addr)
			if !ok || field != "Children" || !(owner == "BloomExpression" || owner == "PrefilterExpression" || owner == "RegexExpression") {
				return
			}
			host := baseName(w.name(fn))
			stored[host]++
			out := map[string]bool{}
			sliceOrigins(w, st.Val, map[ssa.Value]bool{}, out)
			delete(out, "fresh")
			r.check(len(out) == 0, rule, fmt.Sprintf("%s:Children#%d", host, stored[host]), w.instrPos(in), "Children is a freshly allocated list", host+" stores a child list backed by "+strings.Join(sortedKeys(out), ", ")+": the new tree shares children storage with another tree")
		})
	}
	for _, name := range []string{"And", "Or", "PrefilterAnd", "PrefilterOr", "RegexAnd", "RegexOr"} {
		if stored[name] == 0 {
			r.undecided(rule, name+":Children", "-", name+" no longer stores a Children list: its anchor does not resolve")
		}
	}
}
