package main

// Site selection by semantic identity (E2 building blocks): call sites by
// resolved callee, channel operations by the struct field holding the channel,
// field stores, goroutine starts.

import (
	"go/token"
	"go/types"
	"sort"
	"strings"

	"golang.org/x/tools/go/ssa"
)

type Site struct {
	Fn    *ssa.Function
	Instr ssa.Instruction
}

func (w *World) siteKey(s Site) string { return w.name(s.Fn) }

// callSites returns every call-like instruction (call, go, defer) in the
// package whose resolved callee base name is one of names.
func (w *World) callSites(names ...string) []Site {
	want := map[string]bool{}
	for _, n := range names {
		want[n] = true
	}
	var out []Site
	for _, fn := range w.Funcs {
		if w.absorbable(fn) {
			continue // an absorbed helper: visited with each of its callers
		}
		eachInstr(fn, func(in ssa.Instruction) {
			if c := callOf(in); c != nil {
				n := w.calleeName(c)
				if want[n] || want[baseName(n)] {
					out = append(out, Site{fn, in})
				}
			}
		})
	}
	return out
}

func (w *World) callSitesIn(fn *ssa.Function, names ...string) []ssa.Instruction {
	want := map[string]bool{}
	for _, n := range names {
		want[n] = true
	}
	var out []ssa.Instruction
	eachInstr(fn, func(in ssa.Instruction) {
		if c := callOf(in); c != nil {
			n := w.calleeName(c)
			if want[n] || want[baseName(n)] {
				out = append(out, in)
			}
		}
	})
	return out
}

// isCallTo reports whether c resolves to one of names (base names allowed).
func (w *World) isCallTo(c *ssa.CallCommon, names ...string) bool {
	if c == nil {
		return false
	}
	n := w.calleeName(c)
	b := baseName(n)
	for _, x := range names {
		if x == n || x == b {
			return true
		}
	}
	return false
}

// callerNames returns the sorted distinct names of functions containing the sites.
func (w *World) callerNames(sites []Site) []string {
	set := map[string]bool{}
	for _, s := range sites {
		set[baseName(w.name(s.Fn))] = true
	}
	return sortedKeys(set)
}

// outermost returns the top-level function enclosing fn (closures → parent).
func outermost(fn *ssa.Function) *ssa.Function {
	for fn.Parent() != nil {
		fn = fn.Parent()
	}
	return fn
}

// ---------------------------------------------------------------------------
// Channel operations

type ChanOp struct {
	Fn    *ssa.Function
	Instr ssa.Instruction
	Kind  string // send, recv, close, make, selsend, selrecv, range, len
	Chan  ssa.Value
	Key   string // "Owner.field" when the channel comes from a struct field, else access path
	Sel   *ssa.Select
	Case  int
	Val   ssa.Value // sent value
}

// chanKey identifies a channel by the struct field it was loaded from, if any.
func (w *World) chanKey(v ssa.Value) string {
	if owner, field, _, ok := w.structFieldOf(v); ok {
		return owner + "." + field
	}
	// a local cell holding a channel made in this function / closures thereof
	return w.path(v)
}

func (w *World) chanOps() []ChanOp {
	var out []ChanOp
	for _, fn := range w.Funcs {
		if w.absorbable(fn) {
			continue // an absorbed helper: visited with each of its callers
		}
		eachInstr(fn, func(in ssa.Instruction) {
			switch x := in.(type) {
			case *ssa.Send:
				out = append(out, ChanOp{Fn: fn, Instr: in, Kind: "send", Chan: x.Chan, Key: w.chanKey(x.Chan), Val: x.X})
			case *ssa.UnOp:
				if x.Op == token.ARROW {
					out = append(out, ChanOp{Fn: fn, Instr: in, Kind: "recv", Chan: x.X, Key: w.chanKey(x.X)})
				}
			case *ssa.Select:
				for i, st := range x.States {
					k := "selrecv"
					if st.Dir == types.SendOnly {
						k = "selsend"
					}
					out = append(out, ChanOp{Fn: fn, Instr: in, Kind: k, Chan: st.Chan, Key: w.chanKey(st.Chan), Sel: x, Case: i, Val: st.Send})
				}
			case *ssa.Call:
				if b, ok := x.Call.Value.(*ssa.Builtin); ok && b.Name() == "close" {
					out = append(out, ChanOp{Fn: fn, Instr: in, Kind: "close", Chan: x.Call.Args[0], Key: w.chanKey(x.Call.Args[0])})
				}
			case *ssa.Range:
				if _, ok := x.X.Type().Underlying().(*types.Chan); ok {
					out = append(out, ChanOp{Fn: fn, Instr: in, Kind: "range", Chan: x.X, Key: w.chanKey(x.X)})
				}
			}
		})
	}
	return out
}

// selState describes select case k.
func (w *World) selState(sel *ssa.Select, k int) (dir string, key string, st *ssa.SelectState) {
	if k < 0 || k >= len(sel.States) {
		return "default", "", nil
	}
	st = sel.States[k]
	dir = "recv"
	if st.Dir == types.SendOnly {
		dir = "send"
	}
	return dir, w.chanKey(st.Chan), st
}

// isDoneChan reports whether a select-receive channel is `<ctx>.Done()` and
// returns the access path of the context.
func (w *World) isDoneChan(v ssa.Value) (ctxPath string, ok bool) {
	c, isCall := v.(*ssa.Call)
	if !isCall {
		return "", false
	}
	if c.Call.IsInvoke() && c.Call.Method.Name() == "Done" && w.typeName(c.Call.Value.Type()) == "context.Context" {
		return w.path(c.Call.Value), true
	}
	return "", false
}

// ---------------------------------------------------------------------------
// Field stores / loads

type FieldAccess struct {
	Fn     *ssa.Function
	Instr  ssa.Instruction
	Owner  string
	Field  string
	Base   ssa.Value
	Write  bool
	Val    ssa.Value // stored value for writes
	Addr   *ssa.FieldAddr
	InInit bool // base is an allocation of the same function (constructor/literal)
}

// fieldAccesses lists loads and stores of struct fields of the given owner type
// (through FieldAddr). A FieldAddr whose address escapes (passed to a call, e.g.
// &x.mu for Lock) is reported with Write=false and Instr=the FieldAddr itself
// only when addrEscapes is set.
func (w *World) fieldAccesses(owner string) []FieldAccess {
	var out []FieldAccess
	for _, fn := range w.Funcs {
		if w.absorbable(fn) {
			continue // an absorbed helper: visited with each of its callers
		}
		eachInstr(fn, func(in ssa.Instruction) {
			fa, ok := in.(*ssa.FieldAddr)
			if !ok {
				return
			}
			o, f, base, _ := w.structFieldOf(fa)
			if o != owner {
				return
			}
			_, fresh := stripToAlloc(base)
			for _, ref := range *fa.Referrers() {
				switch x := ref.(type) {
				case *ssa.Store:
					if x.Addr == fa {
						out = append(out, FieldAccess{Fn: fn, Instr: x, Owner: o, Field: f, Base: base, Write: true, Val: x.Val, Addr: fa, InInit: fresh})
					}
				case *ssa.UnOp:
					if x.Op == token.MUL {
						out = append(out, FieldAccess{Fn: fn, Instr: x, Owner: o, Field: f, Base: base, Write: false, Addr: fa, InInit: fresh})
					}
				}
			}
		})
	}
	return out
}

// stripToAlloc reports whether v is (a load of a cell holding) a fresh
// allocation made in the same function — a constructor's object.
func stripToAlloc(v ssa.Value) (*ssa.Alloc, bool) {
	switch x := v.(type) {
	case *ssa.Alloc:
		return x, true
	case *ssa.UnOp:
		if x.Op == token.MUL {
			if a, ok := x.X.(*ssa.Alloc); ok {
				if sv := singleStoredValue(a); sv != nil {
					return stripToAlloc(sv)
				}
			}
		}
	}
	return nil, false
}

// goSites lists `go` statements.
func (w *World) goSites() []Site {
	var out []Site
	for _, fn := range w.Funcs {
		if w.absorbable(fn) {
			continue // an absorbed helper: visited with each of its callers
		}
		eachInstr(fn, func(in ssa.Instruction) {
			if _, ok := in.(*ssa.Go); ok {
				out = append(out, Site{fn, in})
			}
		})
	}
	return out
}

// reachableFuncs returns the package functions reachable from roots through
// static calls, closures created, deferred and go'd calls (package-local
// region; interface calls into the package's own types are followed by name
// through every method with that name).
func (w *World) reachableFuncs(followGo bool, roots ...*ssa.Function) map[*ssa.Function]bool {
	seen := map[*ssa.Function]bool{}
	var rec func(fn *ssa.Function)
	rec = func(fn *ssa.Function) {
		if fn == nil || seen[fn] || !w.ours(fn) || len(fn.Blocks) == 0 {
			return
		}
		seen[fn] = true
		eachInstr(fn, func(in ssa.Instruction) {
			if mc, ok := in.(*ssa.MakeClosure); ok {
				rec(mc.Fn.(*ssa.Function))
			}
			if _, isGo := in.(*ssa.Go); isGo && !followGo {
				return
			}
			if c := callOf(in); c != nil {
				if f := w.staticCallee(c); f != nil {
					rec(f)
				}
			}
		})
	}
	for _, r := range roots {
		rec(r)
	}
	return seen
}

func (w *World) funcNames(set map[*ssa.Function]bool) []string {
	var out []string
	for f := range set {
		out = append(out, w.name(f))
	}
	sort.Strings(out)
	return out
}

func hasSuffixAny(s string, suf ...string) bool {
	for _, x := range suf {
		if strings.HasSuffix(s, x) {
			return true
		}
	}
	return false
}

// retOperand returns the value a Return yields for result i, looking through
// the result cell go/ssa uses in functions with defers
// (`*t0 = v; rundefers; t1 = *t0; return t1`).
func retOperand(r *ssa.Return, i int) ssa.Value {
	if i >= len(r.Results) {
		return nil
	}
	v := r.Results[i]
	u, ok := v.(*ssa.UnOp)
	if !ok || u.Op != token.MUL {
		return v
	}
	a, ok := u.X.(*ssa.Alloc)
	if !ok {
		return v
	}
	b := r.Block()
	var last ssa.Value
	for _, in := range b.Instrs {
		if st, ok := in.(*ssa.Store); ok && st.Addr == a {
			last = st.Val
		}
	}
	if last != nil {
		return last
	}
	// single predecessor chain
	for p := b; len(p.Preds) == 1; {
		p = p.Preds[0]
		for _, in := range p.Instrs {
			if st, ok := in.(*ssa.Store); ok && st.Addr == a {
				last = st.Val
			}
		}
		if last != nil {
			return last
		}
	}
	return v
}

// fnOrUndecided resolves a named function or records an undecided obligation.
func fnOrUndecided(w *World, r *Report, rule, name string) *ssa.Function {
	fn := w.fn(name)
	if fn == nil {
		if fs := w.fnsByBase(name); len(fs) > 0 {
			return fs[0]
		}
		r.undecided(rule, "anchor:"+name, "-", "anchor function "+name+" no longer resolves; the rule could not be evaluated")
	}
	return fn
}
