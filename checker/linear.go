package main

import (
	"fmt"
	"go/constant"
	"go/token"
	"go/types"
	"sort"
	"strings"

	"golang.org/x/tools/go/ssa"
)

// E8 — linear bounds prover. Integer values of one function are read as linear
// forms over leaves (function-entry contents of memory cells, len() of entry
// slices, decoded integers, parameters); loads are resolved through the
// function's own stores (a small memory-SSA: the closest dominating store, if
// no other store can intervene); the comparisons that dominate a program point
// give inequalities G ≥ 0; an obligation N ≥ 0 is discharged when N, N−G or
// N−G1−G2 is a non-negative combination of non-negative leaves. Nothing is
// executed; the prover is incomplete (it may fail to prove a true bound, which
// is why its sinks are a frozen, hand-confirmed list) but a bound it proves
// holds on every path to the sink, exactly — off-by-constant errors included.

type lin struct {
	c map[string]int64
	k int64
}

func linConst(k int64) lin      { return lin{c: map[string]int64{}, k: k} }
func linLeaf(name string) lin   { return lin{c: map[string]int64{name: 1}} }
func (a lin) add(b lin) lin     { return a.comb(b, 1) }
func (a lin) sub(b lin) lin     { return a.comb(b, -1) }
func (a lin) isConst() bool     { return len(a.c) == 0 }
func (a lin) scale(m int64) lin { return linConst(0).comb(a, m) }
func (a lin) plus(k int64) lin  { r := a.comb(linConst(0), 1); r.k += k; return r }
func (a lin) comb(b lin, m int64) lin {
	r := lin{c: map[string]int64{}, k: a.k + m*b.k}
	for l, v := range a.c {
		r.c[l] = v
	}
	for l, v := range b.c {
		r.c[l] += m * v
		if r.c[l] == 0 {
			delete(r.c, l)
		}
	}
	return r
}

func (a lin) String() string {
	var ks []string
	for l := range a.c {
		ks = append(ks, l)
	}
	sort.Strings(ks)
	var sb strings.Builder
	for _, l := range ks {
		fmt.Fprintf(&sb, "%+d·%s ", a.c[l], l)
	}
	fmt.Fprintf(&sb, "%+d", a.k)
	return sb.String()
}

type linEnv struct {
	w      *World
	fn     *ssa.Function
	stores map[string][]*ssa.Store
	idx    map[ssa.Instruction]int
	nonneg map[string]bool
	side   []lin // E ≥ 0 conditions under which the last evaluation is faithful (signed→unsigned conversions)
	reachM map[*ssa.BasicBlock]map[*ssa.BasicBlock]bool
	depth  int
}

func newLinEnv(w *World, fn *ssa.Function) *linEnv {
	e := &linEnv{w: w, fn: fn, stores: map[string][]*ssa.Store{}, idx: map[ssa.Instruction]int{}, nonneg: map[string]bool{}, reachM: map[*ssa.BasicBlock]map[*ssa.BasicBlock]bool{}}
	for _, b := range fn.Blocks {
		for i, in := range b.Instrs {
			e.idx[in] = i
			if st, ok := in.(*ssa.Store); ok {
				k := e.cellKey(st.Addr)
				e.stores[k] = append(e.stores[k], st)
			}
		}
	}
	return e
}

func (e *linEnv) cellKey(addr ssa.Value) string { return deref(e.w.path(addr)) }

func (e *linEnv) leaf(name string, nonneg bool) lin {
	if nonneg {
		e.nonneg[name] = true
	}
	return linLeaf(name)
}

func isUnsigned(t types.Type) bool {
	b, ok := t.Underlying().(*types.Basic)
	return ok && b.Info()&types.IsUnsigned != 0
}

func intBits(t types.Type) int {
	b, ok := t.Underlying().(*types.Basic)
	if !ok || b.Info()&types.IsInteger == 0 {
		return 0
	}
	switch b.Kind() {
	case types.Int8, types.Uint8:
		return 8
	case types.Int16, types.Uint16:
		return 16
	case types.Int32, types.Uint32:
		return 32
	}
	return 64 // int, uint, uintptr, int64, uint64 on the supported (64-bit) targets
}

// blockReachPlus: a path of at least one edge from a to b.
func (e *linEnv) blockReachPlus(a, b *ssa.BasicBlock) bool {
	m, ok := e.reachM[a]
	if !ok {
		m = map[*ssa.BasicBlock]bool{}
		work := append([]*ssa.BasicBlock{}, a.Succs...)
		for len(work) > 0 {
			x := work[len(work)-1]
			work = work[:len(work)-1]
			if m[x] {
				continue
			}
			m[x] = true
			work = append(work, x.Succs...)
		}
		e.reachM[a] = m
	}
	return m[b]
}

func (e *linEnv) reachInstr(a, b ssa.Instruction) bool {
	if a.Block() == b.Block() && e.idx[a] < e.idx[b] {
		return true
	}
	return e.blockReachPlus(a.Block(), b.Block())
}

func (e *linEnv) before(a, b ssa.Instruction) bool { // a dominates b
	if a.Block() == b.Block() {
		return e.idx[a] < e.idx[b]
	}
	return a.Block().Dominates(b.Block())
}

// resolve returns the value the load observes: the value of the closest
// dominating store to the same cell when no other store can run between it and
// the load; ("entry", nil) when no store of this function can precede the load;
// ("opaque", nil) otherwise.
func (e *linEnv) resolve(u *ssa.UnOp) (string, ssa.Value) {
	key := e.cellKey(u.X)
	var closest *ssa.Store
	for _, st := range e.stores[key] {
		if e.before(st, u) && (closest == nil || e.before(closest, st)) {
			closest = st
		}
	}
	for _, st := range e.stores[key] {
		if st == closest {
			continue
		}
		if closest == nil {
			if e.reachInstr(st, u) {
				return "opaque", nil
			}
			continue
		}
		if e.reachInstr(closest, st) && e.reachInstr(st, u) {
			return "opaque", nil
		}
	}
	if closest == nil {
		return "entry", nil
	}
	return "store", closest.Val
}

func (e *linEnv) opaque(v ssa.Value) lin {
	name := fmt.Sprintf("%s@%s", v.Name(), e.w.pos(v.Pos()))
	if in, ok := v.(ssa.Instruction); ok {
		name = fmt.Sprintf("%s@%s", v.Name(), e.w.instrPos(in))
	}
	return e.leaf(name, isUnsigned(v.Type()))
}

func (e *linEnv) eval(v ssa.Value) lin {
	e.depth++
	defer func() { e.depth-- }()
	if e.depth > 40 {
		return e.opaque(v)
	}
	switch x := v.(type) {
	case *ssa.Const:
		if x.Value != nil && x.Value.Kind() == constant.Int {
			if n, ok := constant.Int64Val(x.Value); ok {
				return linConst(n)
			}
		}
	case *ssa.BinOp:
		switch x.Op {
		case token.ADD:
			return e.eval(x.X).add(e.eval(x.Y))
		case token.SUB:
			return e.eval(x.X).sub(e.eval(x.Y))
		case token.MUL:
			a, b := e.eval(x.X), e.eval(x.Y)
			if a.isConst() {
				return b.scale(a.k)
			}
			if b.isConst() {
				return a.scale(b.k)
			}
		}
	case *ssa.ChangeType:
		return e.eval(x.X)
	case *ssa.Convert:
		sb, db := intBits(x.X.Type()), intBits(x.Type())
		if sb == 0 || db == 0 || db < sb {
			return e.opaque(v)
		}
		inner := e.eval(x.X)
		if isUnsigned(x.Type()) && !isUnsigned(x.X.Type()) {
			e.side = append(e.side, inner) // faithful only when the signed value is ≥ 0
		}
		if !isUnsigned(x.Type()) && isUnsigned(x.X.Type()) && db == sb {
			// uint64 → int64: faithful only below 2^63; treat as opaque non-negative? no — unknown
			return e.opaque(v)
		}
		return inner
	case *ssa.Call:
		if b, ok := x.Call.Value.(*ssa.Builtin); ok && b.Name() == "len" {
			return e.lenOf(x.Call.Args[0])
		}
		n := e.w.calleeName(&x.Call)
		if strings.HasSuffix(n, ".Uint32") || strings.HasSuffix(n, ".Uint16") {
			return e.leaf("decoded:"+e.w.instrPos(x), true)
		}
	case *ssa.UnOp:
		if x.Op == token.MUL {
			switch kind, val := e.resolve(x); kind {
			case "store":
				return e.eval(val)
			case "entry":
				return e.leaf(e.cellKey(x.X)+"@entry", isUnsigned(x.Type()))
			}
		}
	case *ssa.Parameter:
		// a parameter of a helper analysed in line (one call site, not part of
		// the confirmed tree): the argument of that call
		if x.Parent() != e.fn {
			if c := e.w.uniqueCallSite(x.Parent()); c != nil {
				for i, p := range x.Parent().Params {
					if p == x && i < len(c.Call.Args) {
						return e.eval(c.Call.Args[i])
					}
				}
			}
		}
		return e.leaf("p:"+x.Name(), isUnsigned(x.Type()))
	}
	return e.opaque(v)
}

// lenOf: the length of a slice/string value as a linear form.
func (e *linEnv) lenOf(v ssa.Value) lin {
	e.depth++
	defer func() { e.depth-- }()
	if e.depth > 40 {
		return e.leaf("len("+v.Name()+")", true)
	}
	switch x := v.(type) {
	case *ssa.Const:
		if x.Value != nil && x.Value.Kind() == constant.String {
			return linConst(int64(len(constant.StringVal(x.Value))))
		}
	case *ssa.Slice:
		base := e.baseLen(x.X)
		hi, lo := base, linConst(0)
		if x.High != nil {
			hi = e.eval(x.High)
		}
		if x.Low != nil {
			lo = e.eval(x.Low)
		}
		return hi.sub(lo)
	case *ssa.MakeSlice:
		return e.eval(x.Len)
	case *ssa.ChangeType:
		return e.lenOf(x.X)
	case *ssa.UnOp:
		if x.Op == token.MUL {
			switch kind, val := e.resolve(x); kind {
			case "store":
				return e.lenOf(val)
			case "entry":
				return e.leaf("len("+e.cellKey(x.X)+"@entry)", true)
			}
		}
	case *ssa.Parameter:
		return e.leaf("len(p:"+x.Name()+")", true)
	}
	name := v.Name()
	if in, ok := v.(ssa.Instruction); ok {
		name += "@" + e.w.instrPos(in)
	}
	return e.leaf("len("+name+")", true)
}

// baseLen: length of the operand of a slice expression (a slice, a string, or a pointer to an array).
func (e *linEnv) baseLen(v ssa.Value) lin {
	if p, ok := v.Type().Underlying().(*types.Pointer); ok {
		if a, ok := p.Elem().Underlying().(*types.Array); ok {
			return linConst(a.Len())
		}
	}
	return e.lenOf(v)
}

// trivially: N ≥ 0 because every leaf with a positive coefficient is
// non-negative, no coefficient is negative and the constant is ≥ 0.
func (e *linEnv) trivially(n lin) bool {
	if n.k < 0 {
		return false
	}
	for l, c := range n.c {
		if c < 0 || !e.nonneg[l] {
			return false
		}
	}
	return true
}

func (e *linEnv) entails(need lin, guards []lin) bool {
	if e.trivially(need) {
		return true
	}
	for _, g := range guards {
		if e.trivially(need.sub(g)) {
			return true
		}
	}
	for i, g1 := range guards {
		for _, g2 := range guards[i:] {
			if e.trivially(need.sub(g1).sub(g2)) {
				return true
			}
		}
	}
	return false
}

// guardsAt collects the inequalities G ≥ 0 established by the comparisons that
// dominate block b on the edge leading to it. A comparison evaluated through a
// signed→unsigned conversion of E counts only when E ≥ 0 follows from the
// conversion-free guards.
func (e *linEnv) guardsAt(b *ssa.BasicBlock) []lin {
	type pending struct {
		gs   []lin
		side []lin
	}
	var base []lin
	var pend []pending
	for d := b; d != nil; d = d.Idom() {
		dom := d.Idom()
		if dom == nil {
			break
		}
		ifi, ok := dom.Instrs[len(dom.Instrs)-1].(*ssa.If)
		if !ok {
			continue
		}
		taken := -1
		for si, s := range dom.Succs {
			if s == d || s.Dominates(d) {
				if taken >= 0 {
					taken = -2
				} else {
					taken = si
				}
			}
		}
		if taken < 0 || len(dom.Succs[taken].Preds) != 1 {
			continue
		}
		cond := ifi.Cond
		neg := false
		for {
			if u, ok := cond.(*ssa.UnOp); ok && u.Op == token.NOT {
				cond, neg = u.X, !neg
				continue
			}
			break
		}
		cmp, ok := cond.(*ssa.BinOp)
		if !ok || intBits(cmp.X.Type()) == 0 {
			continue
		}
		holds := (taken == 0) != neg
		op := cmp.Op
		if !holds {
			switch op {
			case token.LSS:
				op = token.GEQ
			case token.LEQ:
				op = token.GTR
			case token.GTR:
				op = token.LEQ
			case token.GEQ:
				op = token.LSS
			case token.EQL:
				op = token.NEQ
			case token.NEQ:
				op = token.EQL
			}
		}
		e.side = nil
		x, y := e.eval(cmp.X), e.eval(cmp.Y)
		side := e.side
		e.side = nil
		var gs []lin
		switch op {
		case token.LSS:
			gs = []lin{y.sub(x).plus(-1)}
		case token.LEQ:
			gs = []lin{y.sub(x)}
		case token.GTR:
			gs = []lin{x.sub(y).plus(-1)}
		case token.GEQ:
			gs = []lin{x.sub(y)}
		case token.EQL:
			gs = []lin{x.sub(y), y.sub(x)}
		default:
			continue
		}
		if len(side) == 0 {
			base = append(base, gs...)
		} else {
			pend = append(pend, pending{gs, side})
		}
	}
	// inside a helper analysed in line the comparisons that dominate its one
	// call site hold as well (SSA values do not change; loads are resolved
	// against the caller's stores as for any other instruction of the caller)
	if b.Parent() != e.fn && e.depth < 30 {
		if c := e.w.uniqueCallSite(b.Parent()); c != nil && c.Block() != nil {
			e.depth += 10
			base = append(base, e.guardsAt(c.Block())...)
			e.depth -= 10
		}
	}
	out := append([]lin{}, base...)
	for _, p := range pend {
		ok := true
		for _, s := range p.side {
			if !e.entails(s, base) {
				ok = false
			}
		}
		if ok {
			out = append(out, p.gs...)
		}
	}
	return out
}
