package main

import (
	"fmt"
	"go/types"
	"strings"

	"golang.org/x/tools/go/ssa"
)

// C07 — FIFO acknowledgement order: single producer + single synchronous
// consumer + blocking queue + no bypass; each leg is an ownership or path rule.

func init() { register("C07", checkC07) }

func checkC07(w *World, r *Report, tier string) propMeta {
	c07R1(w, r)
	c07R2(w, r)
	c07R3(w, r)
	c07R4(w, r, "C07.R4")
	c07R5(w, r)
	c05R5(w, r) // an abandoned flush request is answered with a non-nil error, never nil
	c08R5(w, r) // no answer (a Flush ack included) overtakes the entry check that the flush context is still live
	return propMeta{
		explanation: "FIFO acknowledgement follows from four structural legs, each decided statically for every schedule because it removes what a reordering would need: (R1) flushChan has exactly one sender (triggerFlush, reachable only from the ingest actor through flushBufferedData) and one receiver (flushWorker, which calls handleFlush synchronously); (R2) no goroutine is started anywhere in the write-path region; (R3) a Flush request is never answered by the ingest actor — its waiter is parked and flushBufferedData is called unconditionally — and no function other than processIngestRequest (own request only), triggerFlush (abandonment) and handleFlush answers waiters; (R4) the enqueue is a blocking select whose only other case is flushCtx.Done(); (R5) waiters are appended at the tail and answered in slice order.",
		notDecided:  "Visibility-before-ack across goroutines beyond C06.R1 (nil only after Update-ok); the MetaStore's own ordering.",
	}
}

func plainCallersOnly(w *World, r *Report, rule, callee string, allowed ...string) {
	sites := w.callSites(callee)
	allow := map[string]bool{}
	for _, a := range allowed {
		allow[a] = true
	}
	if len(sites) == 0 {
		r.undecided(rule, "callers:"+callee, "-", "no call site of "+callee+" found")
	}
	for _, s := range sites {
		host := baseName(w.name(s.Fn))
		_, plain := s.Instr.(*ssa.Call)
		kind := "call"
		if !plain {
			kind = fmt.Sprintf("%T", s.Instr)
		}
		owner := allow[host] || allow[baseName(w.name(outermost(s.Fn)))]
		r.check(owner && plain, rule, fmt.Sprintf("%s<-%s(%s)", callee, host, kind), w.instrPos(s.Instr),
			"called synchronously from its single owner", callee+" is called from "+host+" ("+kind+"): outside the single-owner call chain this rule relies on")
	}
}

func c07R1(w *World, r *Report) {
	const rule = "C07.R1"
	r.rule(rule, "single producer, single synchronous consumer: only triggerFlush sends on flushChan, only flushWorker receives; triggerFlush ← flushBufferedData ← {processIngestRequest, ingestWorker}; processIngestRequest ← ingestWorker; handleFlush ← flushWorker; all by plain calls", 12)
	for _, op := range w.chanOps() {
		if op.Key != fieldFlushChan {
			continue
		}
		host := w.name(op.Fn)
		switch op.Kind {
		case "send", "selsend":
			r.check(host == "BloomSearchEngine.triggerFlush", rule, "flushChan:sender:"+host, w.instrPos(op.Instr), "sole sender", "a second sender on flushChan: flush requests (and Flush acks) from two producers are unordered")
		case "recv", "selrecv", "range":
			r.check(host == "BloomSearchEngine.flushWorker", rule, "flushChan:receiver:"+host, w.instrPos(op.Instr), "sole receiver", "a second receiver on flushChan executes flushes concurrently: later acks can overtake earlier ones")
		case "close":
			r.bad(rule, "flushChan:close:"+host, w.instrPos(op.Instr), "flushChan is closed: the blocking-queue argument no longer holds")
		}
	}
	plainCallersOnly(w, r, rule, "BloomSearchEngine.triggerFlush", "BloomSearchEngine.flushBufferedData")
	plainCallersOnly(w, r, rule, "BloomSearchEngine.flushBufferedData", "BloomSearchEngine.processIngestRequest", "BloomSearchEngine.ingestWorker")
	plainCallersOnly(w, r, rule, "BloomSearchEngine.processIngestRequest", "BloomSearchEngine.ingestWorker")
	plainCallersOnly(w, r, rule, "BloomSearchEngine.handleFlush", "BloomSearchEngine.flushWorker")
	// the function values are not taken anywhere (method values / closures escape the call chain)
	for _, fn := range w.Funcs {
		eachInstr(fn, func(in ssa.Instruction) {
			mc, ok := in.(*ssa.MakeClosure)
			if !ok {
				return
			}
			name := w.name(mc.Fn.(*ssa.Function))
			for _, x := range []string{"handleFlush", "triggerFlush", "processIngestRequest", "flushBufferedData"} {
				if strings.Contains(name, "BloomSearchEngine."+x+"$bound") {
					r.bad(rule, "methodvalue:"+x+"@"+w.name(fn), w.instrPos(in), x+" is taken as a method value: it can be invoked outside the actor chain")
				}
			}
		})
	}
}

func writePathRegion(w *World) map[*ssa.Function]bool {
	return w.reachableFuncs(false, w.fn("BloomSearchEngine.ingestWorker"), w.fn("BloomSearchEngine.flushWorker"))
}

func c07R2(w *World, r *Report) {
	const rule = "C07.R2"
	r.rule(rule, "no asynchronous hop: no go statement in any function reachable from ingestWorker or flushWorker", 20)
	region := writePathRegion(w)
	if len(region) < 10 {
		r.undecided(rule, "region", "-", fmt.Sprintf("write-path region has only %d functions: anchors lost", len(region)))
	}
	for _, name := range w.funcNames(region) {
		fn := w.fn(name)
		nGo := 0
		eachInstr(fn, func(in ssa.Instruction) {
			if _, ok := in.(*ssa.Go); ok {
				nGo++
				r.bad(rule, "go@"+name, w.instrPos(in), "a goroutine is started inside the write path: work (a flush, an ack) can complete out of acceptance order")
			}
		})
		if nGo == 0 {
			r.ok(rule, "nogo:"+name, w.pos(fn.Pos()), "no go statement")
		}
	}
}

func c07R3(w *World, r *Report) {
	const rule = "C07.R3"
	r.rule(rule, "no bypass for Flush: on forceFlush paths the waiter is parked and flushBufferedData is called, never answered directly; the ingest actor only ever answers its own request's waiter; waiters are answered only by processIngestRequest, triggerFlush and handleFlush", 10)
	fn := fnOrUndecided(w, r, rule, "BloomSearchEngine.processIngestRequest")
	if fn == nil {
		return
	}
	cl := &Classifier{
		Cond: func(c Cond, taken bool) *Event {
			if c.Op == "truth" && w.path(c.X) == "p:req.forceFlush" {
				if taken {
					return ev("force")
				}
				return ev("notforce")
			}
			return nil
		},
		Call: func(site ssa.Instruction, c *ssa.CallCommon) *Event {
			if w.isCallTo(c, "BloomSearchEngine.flushBufferedData") {
				return ev("flushBuffered")
			}
			return nil
		},
		Instr: func(in ssa.Instruction) *Event {
			if st, ok := in.(*ssa.Store); ok && w.path(st.Addr) == "p:doneChans" {
				if call, ok := st.Val.(*ssa.Call); ok {
					if _, elems, ok := appendedElems(call); ok {
						for _, e := range elems {
							if w.path(e) == waiterPath {
								return ev("parked")
							}
						}
					}
				}
			}
			return nil
		},
	}
	fl := newFlow(w, fn, cl)
	nForce := 0
	for i, ret := range fl.Returns() {
		f := fl.Before(ret)
		if f.May("force") {
			nForce++
			r.check(f.Must("parked") && f.Must("flushBuffered"), rule, fmt.Sprintf("processIngestRequest:force-return#%d", i), w.instrPos(ret), "Flush waiter parked and routed through the flush queue", "a Flush request can return without parking its waiter and calling flushBufferedData: Flush would hang or be answered out of order")
		}
	}
	if nForce == 0 {
		r.undecided(rule, "processIngestRequest:forceFlush", w.pos(fn.Pos()), "no path conditioned on req.forceFlush found")
	}
	allowedHosts := map[string]bool{"BloomSearchEngine.processIngestRequest": true, "BloomSearchEngine.triggerFlush": true, "BloomSearchEngine.handleFlush": true}
	for _, a := range answerSites(w) {
		host := w.name(outermost(a.fn))
		key := fmt.Sprintf("answer@%s(%s)", w.name(a.fn), describeErrValue(w, a.value)+errTextKey(w, a.value))
		if !allowedHosts[host] {
			r.bad(rule, key, w.instrPos(a.call), "waiters are answered from "+host+", outside the FIFO chain")
			continue
		}
		if a.fn == fn {
			f := fl.Before(a.call)
			okc := w.path(a.chans) == waiterPath && !f.May("force")
			r.check(okc, rule, key, w.instrPos(a.call), "ingest actor answers only its own non-Flush request", "the ingest actor answers "+w.path(a.chans)+" directly (force="+fmt.Sprint(f.May("force"))+"): the ack bypasses the flush queue and can overtake earlier flushes")
		} else {
			r.ok(rule, key, w.instrPos(a.call), "answer from the flush side")
		}
	}
	// the ack-only path of handleFlush: a nil ack for a request without buffers is still a flushWorker answer (R1)
}

// c07R4: blocking enqueue.
func c07R4(w *World, r *Report, rule string) {
	r.rule(rule, "blocking enqueue: the select that sends on flushChan is blocking and its only other case receives from flushCtx.Done()", 1)
	n := 0
	for _, op := range w.chanOps() {
		if op.Key != fieldFlushChan || (op.Kind != "selsend" && op.Kind != "send") {
			continue
		}
		n++
		if op.Sel == nil {
			r.ok(rule, "enqueue:"+w.name(op.Fn), w.instrPos(op.Instr), "bare (blocking) send")
			continue
		}
		okc := op.Sel.Blocking
		detail := ""
		if !op.Sel.Blocking {
			detail = "select has a default case; "
		}
		for k, st := range op.Sel.States {
			if k == op.Case {
				continue
			}
			ctxPath, isDone := w.isDoneChan(st.Chan)
			if st.Dir != types.RecvOnly || !isDone || ctxPath != "p:b.flushCtx" {
				okc = false
				detail += fmt.Sprintf("case %d is %s on %s; ", k, map[bool]string{true: "send", false: "recv"}[st.Dir == types.SendOnly], w.path(st.Chan))
			}
		}
		r.check(okc, rule, "enqueue:"+w.name(op.Fn), w.instrPos(op.Instr), "blocking select {flushChan<-, <-flushCtx.Done()}", "the flush enqueue can complete without queueing ("+detail+"): the request is dropped or handled out of band instead of applying backpressure")
	}
	if n == 0 {
		r.undecided(rule, "enqueue", "-", "no send on flushChan found")
	}
}

func c07R5(w *World, r *Report) {
	const rule = "C07.R5"
	r.rule(rule, "order kept: waiters are appended at the tail of the parked list and sendToChannelsWithContext answers them in ascending slice order", 3)
	if fn := w.fn("BloomSearchEngine.processIngestRequest"); fn != nil {
		eachInstr(fn, func(in ssa.Instruction) {
			st, ok := in.(*ssa.Store)
			if !ok || w.path(st.Addr) != "p:doneChans" {
				return
			}
			call, isCall := st.Val.(*ssa.Call)
			okc := false
			if isCall {
				if base, elems, ok := appendedElems(call); ok && w.path(base) == "*p:doneChans" && len(elems) == 1 {
					okc = true
				}
			}
			r.check(okc, rule, "processIngestRequest:park", w.instrPos(in), "append(*doneChans, waiter)", "the parked list is rewritten in a way that does not keep earlier waiters ahead of later ones")
		})
	}
	for _, fn := range w.fnsByBase("sendToChannelsWithContext") {
		ops := deliveries(w, fn)
		okc := len(ops) == 1 && ops[0].blocking
		why := fmt.Sprintf("%d delivery operations", len(ops))
		if okc {
			okc = false
			why = "the delivered channel is not channels[i] for an index counting up from 0 over the whole slice"
			if idx := channelsElemIndex(w, ops[0].ch); idx != nil {
				if init, bound, up := countsUp(idx); up {
					if z, isC := constInt(init); isC && z == 0 {
						if c, ok := bound.(*ssa.Call); ok {
							if bi, ok := c.Call.Value.(*ssa.Builtin); ok && bi.Name() == "len" && w.path(c.Call.Args[0]) == "p:channels" {
								okc = true
							}
						}
					}
				}
			}
		}
		site := "-"
		if len(ops) > 0 {
			site = w.instrPos(ops[0].in)
		}
		r.check(okc, rule, w.name(fn)+":order", site, "channels[i] answered once each, blocking, for i = 0,1,…", "waiters are not answered one by one in slice order ("+why+"): a later batch (or a Flush) can be acknowledged while an earlier one is still unanswered")
	}
}

func ascendingIndex(b *ssa.BinOp) bool {
	if b.Op.String() != "+" {
		return false
	}
	if n, ok := constInt(b.Y); !ok || n != 1 {
		return false
	}
	if ph, ok := b.X.(*ssa.Phi); ok {
		for _, e := range ph.Edges {
			if e == b {
				continue
			}
			if n, ok := constInt(e); !ok || n != -1 {
				return false
			}
		}
		return true
	}
	return false
}

func ascendingPhi(ph *ssa.Phi) bool {
	for _, e := range ph.Edges {
		if n, ok := constInt(e); ok && (n == 0 || n == -1) {
			continue
		}
		if b, ok := e.(*ssa.BinOp); ok && b.Op.String() == "+" && b.X == ph {
			if n, ok := constInt(b.Y); ok && n == 1 {
				continue
			}
		}
		return false
	}
	return true
}
