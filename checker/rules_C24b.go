package main

import (
	"fmt"
	"go/constant"
	"go/token"
	"strings"

	"golang.org/x/tools/go/ssa"
)

// pruneSpec: what the file/block bloom test must answer for a tree — an absent
// (nil) filter cannot disqualify, a present one answers membership; a nil
// expression or nil condition disqualifies nothing; unknown types match nothing.
func pruneSpec(n *exprNode, present map[string]bool, nilFilter map[string]bool) bool {
	switch n.kind {
	case "nil", "condnil":
		return true
	case "cond":
		if nilFilter[n.condType] {
			return true
		}
		return present[n.condType+"|"+bloomKey(n)]
	case "and":
		for _, c := range n.children {
			if !pruneSpec(c, present, nilFilter) {
				return false
			}
		}
		return true
	case "or":
		for _, c := range n.children {
			if pruneSpec(c, present, nilFilter) {
				return true
			}
		}
		return false
	}
	return false
}

// c24R6: the file/block bloom test equals its specification exactly — so it
// disqualifies whenever the filters that are present rule the query out.
func c24R6(w *World, r *Report) int {
	const rule = "C24.R6"
	r.rule(rule, "exact prune table: evaluateBloomFilters, interpreted on every small expression tree × leaf-membership assignment × which of the three filters are absent, equals the specification (absent filter ⇒ cannot disqualify that condition only; present filter ⇒ its own membership answer for the condition's own key)", 3)
	fn := fnOrUndecided(w, r, rule, "BloomSearchEngine.evaluateBloomFilters")
	if fn == nil {
		return 0
	}
	kinds := []string{"FIELD", "TOKEN", "FIELD_TOKEN"}
	trees := append([]*exprNode{{kind: "nil"}}, smallTrees(bloomLeafAlphabet())...)
	total, nBad, nAbort, agree := 0, 0, 0, 0
	perMask := map[int]int{}
	for mask := 0; mask < 8; mask++ {
		nilFilter := map[string]bool{}
		filters := make([]AVal, 3)
		cells := map[*ACell]string{}
		for i, k := range kinds {
			if mask&(1<<i) != 0 {
				nilFilter[k] = true
				filters[i] = AVal{k: aNil}
			} else {
				filters[i] = ptrTo(AVal{k: aObj, obj: &AObj{f: map[int]*ACell{}}})
				cells[filters[i].cell] = k
			}
		}
		for _, t := range trees {
			assignments(t, func(presentByKey map[string]bool) {
				total++
				// membership per filter: a leaf's key is present in its own filter only
				present := map[string]bool{}
				var ls []*exprNode
				t.leaves(&ls)
				for _, l := range ls {
					if l.kind == "cond" {
						present[l.condType+"|"+bloomKey(l)] = presentByKey[bloomKey(l)]
					}
				}
				foreign := ""
				in := &interp{w: w}
				in.ext = func(callee string, args []AVal) (AVal, bool) {
					if strings.HasSuffix(callee, "BloomFilter).TestString") && len(args) == 2 && args[1].k == aConst && args[0].k == aPtr {
						k := cells[args[0].cell] + "|" + constant.StringVal(args[1].c)
						if _, own := present[k]; !own {
							foreign = k
						}
						return aBool(present[k]), true
					}
					return AVal{}, false
				}
				q := ptrTo(w.objOf("BloomQuery", map[string]AVal{"Expression": w.bloomTree(t)}))
				res, ab := in.run(fn, []AVal{aUnk("engine"), filters[0], filters[1], filters[2], q})
				got, isB := false, false
				if ab == "" {
					got, isB = res[0].isBool()
				}
				want := pruneSpec(t, present, nilFilter)
				switch {
				case ab != "" || !isB:
					nAbort++
					if nAbort <= 3 {
						r.undecided(rule, fmt.Sprintf("table:%s/nil-mask=%d", t.String(), mask), "-", "evaluation not determined by the tree: "+ab)
					}
				case foreign != "":
					nBad++
					if nBad <= 6 {
						r.bad(rule, fmt.Sprintf("table:%s/foreign-key", t.String()), w.pos(fn.Pos()), fmt.Sprintf("a filter is asked for a key that no condition of its own kind carries (%s): a condition is tested against the wrong filter or with the wrong key", foreign))
					}
				case got != want:
					nBad++
					if nBad <= 6 {
						why := "the query is ruled out by the filters that are present, yet the file/block is kept: it is opened, its block filters or row data read for nothing"
						if !got {
							why = "data is disqualified although no present filter rules the query out: rows are lost"
						}
						r.bad(rule, fmt.Sprintf("table:%s/absent=%v", t.String(), sortedKeys(nilFilter)), w.pos(fn.Pos()), fmt.Sprintf("evaluateBloomFilters answers %v, specification %v, with leaf membership %v and absent filters %v: %s", got, want, present, sortedKeys(nilFilter), why))
					}
				default:
					agree++
					perMask[mask]++
				}
			})
		}
	}
	if nBad == 0 && nAbort == 0 {
		r.ok(rule, "table:all-filters-present", w.pos(fn.Pos()), fmt.Sprintf("%d cases agree", perMask[0]))
		r.ok(rule, "table:some-filters-absent", w.pos(fn.Pos()), fmt.Sprintf("%d cases agree over 6 partial masks", agree-perMask[0]-perMask[7]))
		r.ok(rule, "table:all-filters-absent", w.pos(fn.Pos()), fmt.Sprintf("%d cases agree", perMask[7]))
	}
	return total
}

// c24R5: planBlockFilterReads reports hasSections iff some candidate block has
// a filter section: the flag is a latch over the block loop.
func c24R5(w *World, r *Report) {
	const rule = "C24.R5"
	r.rule(rule, "hasSections is a latch: false before the block loop, set to true on the BloomFilterSize > 0 edge, and otherwise carried unchanged to the next iteration and to the return", 1)
	fn := fnOrUndecided(w, r, rule, "planBlockFilterReads")
	if fn == nil {
		return
	}
	sizeTest := func(v ssa.Value) bool {
		b, ok := v.(*ssa.BinOp)
		if !ok {
			return false
		}
		switch b.Op {
		case token.GTR, token.NEQ:
			return strings.HasSuffix(w.path(b.X), ".BloomFilterSize") && isZero(b.Y)
		case token.LSS:
			return strings.HasSuffix(w.path(b.Y), ".BloomFilterSize") && isZero(b.X)
		}
		return false
	}
	n := 0
	for i, ret := range newFlow(w, fn, &Classifier{}).Returns() {
		if len(ret.Results) < 4 {
			continue
		}
		if !allNil(retVals(w, ret, len(ret.Results)-1)) {
			continue // error returns carry no verdict
		}
		v := retOperand(ret, 2)
		n++
		hdr, ok := v.(*ssa.Phi)
		if !ok {
			r.bad(rule, fmt.Sprintf("planBlockFilterReads:return#%d", i), w.instrPos(ret), "the hasSections result is not accumulated over the blocks ("+w.path(v)+"): files with sections can be reported as having none (every block scanned unfiltered) or the reverse")
			continue
		}
		sawFalse, sawSet := false, false
		var latch func(x ssa.Value, from, to *ssa.BasicBlock, seen map[ssa.Value]bool) bool
		latch = func(x ssa.Value, from, to *ssa.BasicBlock, seen map[ssa.Value]bool) bool {
			if x == ssa.Value(hdr) {
				return true
			}
			if seen[x] {
				return true
			}
			seen[x] = true
			if b, isC := constBool(x); isC {
				if b {
					// set only where the size test holds
					isFlag := func(c ssa.Value) bool { return c == ssa.Value(hdr) }
					if from != nil && (dominatedByEdge(from, isFlag, 0) || directEdge(from, to, isFlag, 0)) {
						return true // already true stays true
					}
					sawSet = true
					return from != nil && (dominatedByEdge(from, sizeTest, 0) || directEdge(from, to, sizeTest, 0))
				}
				return false
			}
			if ph, ok := x.(*ssa.Phi); ok {
				for k, e := range ph.Edges {
					if !latch(e, ph.Block().Preds[k], ph.Block(), seen) {
						return false
					}
				}
				return true
			}
			// `hasSections || size > 0`: the test itself, on the edge where the flag is still false
			if sizeTest(x) && from != nil && dominatedByEdge(from, func(c ssa.Value) bool { return c == ssa.Value(hdr) }, 1) {
				sawSet = true
				return true
			}
			return false
		}
		okc := true
		for k, e := range hdr.Edges {
			pred := hdr.Block().Preds[k]
			if !hdr.Block().Dominates(pred) {
				b, isC := constBool(e)
				if !isC || b {
					okc = false
				}
				sawFalse = true
				continue
			}
			if !latch(e, pred, hdr.Block(), map[ssa.Value]bool{}) {
				okc = false
			}
		}
		r.check(okc && sawFalse && sawSet, rule, fmt.Sprintf("planBlockFilterReads:return#%d", i), w.instrPos(ret), "false initially, latched true on size > 0", "hasSections is not a latch over the block loop (it can be overwritten by a later block, or set without a section): a file whose last candidate block has no section is treated as having none and every block is scanned unfiltered")
	}
	if n == 0 {
		r.undecided(rule, "planBlockFilterReads:returns", w.pos(fn.Pos()), "no success return found")
	}
}

// dominatedByEdge: block b is reached only through successor `edge` (0 true,
// 1 false) of an If whose condition satisfies pred.
func dominatedByEdge(b *ssa.BasicBlock, pred func(ssa.Value) bool, edge int) bool {
	for d := b; d != nil; d = d.Idom() {
		dom := d.Idom()
		if dom == nil {
			return false
		}
		iff, ok := dom.Instrs[len(dom.Instrs)-1].(*ssa.If)
		if !ok || !pred(iff.Cond) {
			continue
		}
		t := dom.Succs[edge]
		if (t == d || t.Dominates(d)) && len(t.Preds) == 1 {
			return true
		}
	}
	return false
}

// directEdge: from→to is exactly successor `edge` of from's If on a condition
// satisfying pred (the short-circuit shape, where the edge has no block of its own).
func directEdge(from, to *ssa.BasicBlock, pred func(ssa.Value) bool, edge int) bool {
	iff, ok := from.Instrs[len(from.Instrs)-1].(*ssa.If)
	if !ok || !pred(iff.Cond) {
		return false
	}
	return from.Succs[edge] == to && from.Succs[1-edge] != to
}

// c24R7: both pruning stages test the one prune query — the row-level bloom
// expression ANDed with the regex field guard.
func c24R7(w *World, r *Report) {
	const rule = "C24.R7"
	r.rule(rule, "one prune query for both stages: the bloom query given to the file-level evaluateBloomFilters and to evaluateBlockFilters is the result of AndBloomQueries(row bloom query, RegexFieldGuardBloomQuery(query.Regex)) — the block stage does not test less than the file stage", 3)
	q := fnOrUndecided(w, r, rule, "BloomSearchEngine.Query")
	if q == nil {
		return
	}
	n := 0
	for _, s := range w.callSites("BloomSearchEngine.evaluateBlockFilters", "BloomSearchEngine.evaluateBloomFilters") {
		if outermost(s.Fn) != q {
			continue
		}
		c := callOf(s.Instr)
		callee := w.calleeName(c)
		var arg ssa.Value
		for _, a := range c.Args {
			if w.typeName(a.Type()) == "*BloomQuery" {
				arg = a
			}
		}
		if arg == nil {
			continue
		}
		n++
		p := w.path(arg)
		okc := strings.HasPrefix(p, "call:AndBloomQueries@")
		r.check(okc, rule, "prune-query@"+callee, w.instrPos(s.Instr), "AndBloomQueries(row query, regex guard)", callee+" is given "+p+" instead of the combined prune query: one pruning stage ignores the regex field guard (or the bloom conditions), so blocks the filters rule out are still read")
	}
	for _, in := range w.callSitesIn(q, "AndBloomQueries") {
		c := callOf(in)
		n++
		guard := false
		if gc, ok := c.Args[1].(*ssa.Call); ok && w.isCallTo(&gc.Call, "RegexFieldGuardBloomQuery") && strings.HasSuffix(w.path(gc.Call.Args[0]), "query.Regex") {
			guard = true
		}
		// the first operand is the very row-level query the matcher is compiled from
		same := false
		for _, m := range w.callSitesIn(q, "compileRowMatcher") {
			if callOf(m).Args[0] == c.Args[0] {
				same = true
			}
		}
		r.check(guard && same, rule, "prune-query:definition", w.instrPos(in), "row bloom query AND regex field guard", "the prune query is no longer the row-level bloom query ANDed with the regex field guard of query.Regex")
	}
	if n < 3 {
		r.undecided(rule, "anchors", "-", fmt.Sprintf("expected the file-level test, the block filter pass and the prune query's definition, found %d sites", n))
	}
}
