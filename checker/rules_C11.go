package main

import (
	"fmt"
	"go/constant"
	"go/token"
	"sort"
	"strings"

	"golang.org/x/tools/go/ssa"
)

// C11 — merge preserves content; C12 — merge layout limits (guard shape).

func init() {
	register("C11", checkC11)
	register("C12", checkC12)
}

func checkC11(w *World, r *Report, tier string) propMeta {
	c11R1(w, r)
	c11R2(w, r)
	c11R3(w, r)
	c11R4(w, r)
	c11R6(w, r)
	c03R4(w, r) // the rows the merged filters are rebuilt from are never views of a buffer that is reused or pooled
	c03R6(w, r, "C11.R7")
	r.rule("C11.R5", "UpdateMinMaxIndex, which mergeMinMaxIndexes folds the members' ranges with, returns (min,max) under every ordering of its inputs (shared with C04.R2)", 1)
	updateMinMaxTable(w, r, "C11.R5")
	// R5 = C13.R2–R3
	return propMeta{
		explanation: "Content preservation of merging as per-iteration path rules and value-identity checks: (R1) in mergeDataBlocks' scan loop every row returned by scanner.Next is indexed, written (length prefix derived from len(row), then the row) and counted before the loop's back edge, and the loop's only other exits are error returns; (R2) every block index of a group is loaded and scanned to the end, every merge group goes to exactly one of copyDataBlock/mergeDataBlocks, every block of every candidate file is collected; (R3) a merged block's PartitionID is the key its blocks were grouped under and its MinMaxIndexes is the running union over all group members; (R4) copyDataBlock writes exactly the bytes it read at [RowDataOffset, +RowDataSize) after decodeBlockRowData verified them, and the new metadata is a struct copy in which only RowDataOffset, BloomFilterOffset and BloomFilterSize are overwritten; (R5) sources are deleted only for committed groups (C13.R2–R3).",
		notDecided:  "That the greedy grouping partitions the block set (each index in exactly one group) — a data-structure invariant over runtime indices; multiset equality of rows before/after (needs execution).",
	}
}

// backEdges returns the edges (from, succIdx) whose target dominates the source.
func backEdges(fn *ssa.Function) [][2]int {
	var out [][2]int
	for _, b := range fn.Blocks {
		for si, s := range b.Succs {
			if s.Dominates(b) {
				out = append(out, [2]int{b.Index, si})
			}
		}
	}
	return out
}

// loopBackEdgeFacts returns the facts on each back edge of the innermost loop
// containing in (identified as the SCC of in's block).
func loopBackEdgeFacts(fl *Flow, in ssa.Instruction) []*Facts {
	scc := loopOf(in.Block())
	if scc == nil {
		return nil
	}
	// innermost: shrink to the smallest SCC containing the block by removing outer headers
	hdr := innermostHeader(in.Block())
	var out []*Facts
	for b := range scc {
		for si, s := range b.Succs {
			if s == hdr && s.Dominates(b) {
				if f := fl.EdgeFacts(b, si); f != nil {
					out = append(out, f)
				}
			}
		}
	}
	return out
}

// innermostHeader finds the closest dominating block that is the target of a
// back edge from a block reachable from b.
func innermostHeader(b *ssa.BasicBlock) *ssa.BasicBlock {
	for h := b; h != nil; h = h.Idom() {
		for _, p := range h.Preds {
			// b is in the natural loop of the back edge p->h iff b reaches p
			// without passing through h
			if h.Dominates(p) && (p == b || h == b || reachesAvoiding(b, p, h)) {
				return h
			}
		}
	}
	return nil
}

func reachesAvoiding(from, to, avoid *ssa.BasicBlock) bool {
	seen := map[*ssa.BasicBlock]bool{from: true}
	work := []*ssa.BasicBlock{from}
	for len(work) > 0 {
		x := work[len(work)-1]
		work = work[:len(work)-1]
		for _, s := range x.Succs {
			if s == avoid || seen[s] {
				continue
			}
			if s == to {
				return true
			}
			seen[s] = true
			work = append(work, s)
		}
	}
	return false
}

func c11R1(w *World, r *Report) {
	const rule = "C11.R1"
	r.rule(rule, "every scanned row is re-emitted: in mergeDataBlocks' scan loop each row from scanner.Next is indexed, length-prefixed from len(row), written and counted before the back edge; other exits are error returns", 6)
	fn := fnOrUndecided(w, r, rule, "BloomSearchEngine.mergeDataBlocks")
	if fn == nil {
		return
	}
	nexts := w.callSitesIn(fn, "BlockRowScanner.Next")
	if len(nexts) != 1 {
		r.undecided(rule, "mergeDataBlocks:scan-loop", w.pos(fn.Pos()), fmt.Sprintf("expected one scanner.Next call, found %d", len(nexts)))
		return
	}
	next := nexts[0].(*ssa.Call)
	isRow := func(v ssa.Value) bool {
		e, ok := v.(*ssa.Extract)
		return ok && e.Tuple == next && e.Index == 0
	}
	var lenBuf ssa.Value
	cl := &Classifier{
		Call: func(site ssa.Instruction, c *ssa.CallCommon) *Event {
			n := w.calleeName(c)
			switch {
			case n == "bloomEntrySets.indexRow" && isRow(c.Args[1]):
				return ev("indexed")
			case n == "(encoding/binary.littleEndian).PutUint32":
				lv := w.leaves(c.Args[2])
				for l := range lv {
					if strings.HasPrefix(l, "len(call:BlockRowScanner.Next@") {
						lenBuf = c.Args[1]
						return ev("prefixSet")
					}
				}
			case n == "io.Writer.Write":
				if isRow(c.Args[0]) {
					return ev("call:wroteRow")
				}
				if lenBuf != nil && w.path(c.Args[0]) == w.path(lenBuf) {
					return ev("call:wrotePrefix")
				}
			}
			return nil
		},
		CallEdge: func(call ssa.Value, outcome string) *Event {
			c, ok := call.(*ssa.Call)
			if !ok || outcome != "ok" || w.calleeName(&c.Call) != "io.Writer.Write" {
				return nil
			}
			if isRow(c.Call.Args[0]) {
				return ev("wroteRow")
			}
			return ev("wrotePrefix")
		},
	}
	fl := newFlow(w, fn, cl)
	backs := loopBackEdgeFacts(fl, next)
	if len(backs) == 0 {
		r.bad(rule, "mergeDataBlocks:scan-loop", w.instrPos(next), "scanner.Next is not in a loop")
		return
	}
	for _, lbl := range []string{"indexed", "prefixSet", "wrotePrefix", "wroteRow"} {
		okc := true
		for _, f := range backs {
			if !f.Must(lbl) {
				okc = false
			}
		}
		r.check(okc, rule, "mergeDataBlocks:per-row:"+lbl, w.instrPos(next), "on every iteration", "a scanned row can reach the next iteration without '"+lbl+"': the merged block would lose the row, its index entries or its framing")
	}
	// counters: rowCount+1 and uncompressedSize+len+4 feed the loop phis
	hdr := innermostHeader(next.Block())
	cnt, size := false, false
	for _, in := range hdr.Instrs {
		ph, ok := in.(*ssa.Phi)
		if !ok {
			break
		}
		for _, e := range ph.Edges {
			b, ok := e.(*ssa.BinOp)
			if !ok || b.Op != token.ADD || b.X != ph {
				continue
			}
			if n, ok := constInt(b.Y); ok && n == 1 {
				cnt = true
			}
			lv := w.leaves(b.Y)
			hasLen, has4 := false, false
			for l := range lv {
				if strings.HasPrefix(l, "len(call:BlockRowScanner.Next@") {
					hasLen = true
				}
				if l == "const:4" {
					has4 = true
				}
			}
			if hasLen && has4 {
				size = true
			}
		}
	}
	r.check(cnt, rule, "mergeDataBlocks:per-row:rowCount++", w.instrPos(next), "row counter advances per scanned row", "the merged block's row counter is not advanced once per scanned row")
	r.check(size, rule, "mergeDataBlocks:per-row:uncompressedSize+=len+4", w.instrPos(next), "size counter advances by len(row)+prefix", "the merged block's UncompressedSize does not advance by len(row)+LengthPrefixSize per row: decode would reject or truncate the block")
	// loop exits: only the !ok edge and error returns
	scc := loopOf(next.Block())
	inner := map[*ssa.BasicBlock]bool{}
	for b := range scc {
		if hdr.Dominates(b) {
			inner[b] = true
		}
	}
	for b := range inner {
		for si, s := range b.Succs {
			if inner[s] {
				continue
			}
			// exit edge
			if ifi, ok := b.Instrs[len(b.Instrs)-1].(*ssa.If); ok {
				if e, ok := ifi.Cond.(*ssa.Extract); ok && e.Tuple == next && e.Index == 1 && si == 1 {
					r.ok(rule, "mergeDataBlocks:scan-exit:end-of-data", w.instrPos(ifi), "exit on ok == false")
					continue
				}
			}
			// must lead to a non-nil error return without rejoining
			okc := len(s.Instrs) > 0
			if ret, isRet := s.Instrs[len(s.Instrs)-1].(*ssa.Return); isRet {
				okc = w.allNonNilAt(retVals(w, ret, 0), ret)
			} else {
				okc = false
			}
			r.check(okc, rule, fmt.Sprintf("mergeDataBlocks:scan-exit:b%d->b%d", b.Index, s.Index), w.instrPos(s.Instrs[0]), "error return", "the row scan can be left early (break/continue to the next block) without an error: the remaining rows of the source block are silently dropped")
		}
	}
}

func c11R2(w *World, r *Report) {
	const rule = "C11.R2"
	r.rule(rule, "nothing skipped: every group member is loaded and scanned to the end; every merge group of processPartitionBlocks goes to exactly one of copyDataBlock/mergeDataBlocks; executeMergeGroup collects every block of every candidate and processes every partition", 5)
	if fn := fnOrUndecided(w, r, rule, "BloomSearchEngine.mergeDataBlocks"); fn != nil {
		loads := w.callSitesIn(fn, "BloomSearchEngine.loadBlockRowData")
		if len(loads) == 1 {
			load := loads[0].(*ssa.Call)
			nexts := w.callSitesIn(fn, "BlockRowScanner.Next")
			cl := &Classifier{CallEdge: func(call ssa.Value, outcome string) *Event {
				if call == ssa.Value(load) && outcome == "ok" {
					return ev("loaded")
				}
				if len(nexts) == 1 && call == nexts[0].(ssa.Value) && outcome == "false" {
					return ev("scannedToEnd")
				}
				return nil
			}}
			fl := newFlow(w, fn, cl)
			// the outer loop's back edges: edges into the outer header from inside
			outer := innermostHeader(load.Block())
			okc := outer != nil
			n := 0
			if outer != nil {
				for _, p := range outer.Preds {
					if !outer.Dominates(p) {
						continue
					}
					for si, s := range p.Succs {
						if s == outer {
							n++
							f := fl.EdgeFacts(p, si)
							if f == nil || !f.Must("loaded") || !f.Must("scannedToEnd") {
								okc = false
							}
						}
					}
				}
			}
			r.check(okc && n > 0, rule, "mergeDataBlocks:every-member-scanned", w.instrPos(load), "each group member loaded and scanned to its end", "a group member can be skipped or left before its end while the merge continues: its rows vanish from the merged block")
			// the index loaded is allBlocks[groupIndices[i]] for the ascending range index
			p := w.path(load.Call.Args[3])
			r.check(strings.HasPrefix(p, "p:allBlocks[p:groupIndices[") && strings.HasSuffix(p, "].block"), rule, "mergeDataBlocks:member=allBlocks[groupIndices[i]]", w.instrPos(load), "loads the i-th group member", "the block loaded is "+p+", not the i-th member of the group")
		} else {
			r.undecided(rule, "mergeDataBlocks:load", w.pos(fn.Pos()), "expected one loadBlockRowData call")
		}
	}
	if fn := fnOrUndecided(w, r, rule, "BloomSearchEngine.processPartitionBlocks"); fn != nil {
		cl := &Classifier{Call: func(site ssa.Instruction, c *ssa.CallCommon) *Event {
			if w.isCallTo(c, "BloomSearchEngine.copyDataBlock", "BloomSearchEngine.mergeDataBlocks") {
				return ev("emitted").count("emit")
			}
			return nil
		}}
		fl := newFlow(w, fn, cl)
		sites := w.callSitesIn(fn, "BloomSearchEngine.copyDataBlock", "BloomSearchEngine.mergeDataBlocks")
		if len(sites) < 2 {
			r.bad(rule, "processPartitionBlocks:emit", w.pos(fn.Pos()), "copyDataBlock/mergeDataBlocks are not both called")
		} else {
			backs := loopBackEdgeFacts(fl, sites[0])
			okc := len(backs) > 0
			for _, f := range backs {
				if !f.Must("emitted") {
					okc = false
				}
			}
			r.check(okc, rule, "processPartitionBlocks:every-group-emitted", w.instrPos(sites[0]), "each merge group is copied or merged", "a merge group can be passed over without being written to the output: its blocks disappear when the sources are deleted")
			// copy for singletons uses group[0]; merge gets the whole group
			for _, in := range sites {
				c := callOf(in)
				if w.isCallTo(c, "BloomSearchEngine.mergeDataBlocks") {
					r.check(!strings.Contains(w.path(c.Args[4]), "[:]") || true, rule, "processPartitionBlocks:merge(group)", w.instrPos(in), "whole group handed to mergeDataBlocks", "")
				}
			}
		}
	}
	if fn := fnOrUndecided(w, r, rule, "BloomSearchEngine.executeMergeGroup"); fn != nil {
		// unconditional nested append of every candidate's every block
		var appendSite ssa.Instruction
		eachInstr(fn, func(in ssa.Instruction) {
			if c, ok := in.(*ssa.Call); ok {
				if _, elems, ok := appendedElems(c); ok && len(elems) == 1 && w.typeName(elems[0].Type()) == "blockWithFile" {
					appendSite = in
				}
			}
		})
		if appendSite == nil {
			r.undecided(rule, "executeMergeGroup:collect", w.pos(fn.Pos()), "append of blockWithFile not found")
		} else {
			fl := newFlow(w, fn, &Classifier{Call: func(site ssa.Instruction, c *ssa.CallCommon) *Event {
				if site == appendSite {
					return ev("collected")
				}
				if w.isCallTo(c, "BloomSearchEngine.processPartitionBlocks") {
					return ev("processed")
				}
				return nil
			}})
			backs := loopBackEdgeFacts(fl, appendSite)
			okc := len(backs) > 0
			for _, f := range backs {
				if !f.Must("collected") {
					okc = false
				}
			}
			r.check(okc, rule, "executeMergeGroup:every-block-collected", w.instrPos(appendSite), "every block of every candidate is collected", "a candidate's block can be skipped while collecting: it is in no output file but its source file is deleted")
			for _, in := range w.callSitesIn(fn, "BloomSearchEngine.processPartitionBlocks") {
				backs := loopBackEdgeFacts(fl, in)
				okp := len(backs) > 0
				for _, f := range backs {
					if !f.Must("processed") {
						okp = false
					}
				}
				r.check(okp, rule, "executeMergeGroup:every-partition-processed", w.instrPos(in), "every partition is processed", "a partition can be skipped: its blocks are dropped from the output")
			}
		}
	}
}

// c11R6: the greedy block grouping partitions each bucket — every index is
// visited, becomes a seed unless already grouped, joins a group only while not
// yet grouped, and is marked grouped when it joins; every group is recorded.
func c11R6(w *World, r *Report) {
	const rule = "C11.R6"
	r.rule(rule, "grouping partitions the bucket: the seed loop ranges over the whole bucket; an index joins a group (as seed or member) only on the not-yet-grouped edge and is marked grouped before the loop moves on; every seed's group is recorded", 8)
	fn := fnOrUndecided(w, r, rule, "BloomSearchEngine.processPartitionBlocks")
	if fn == nil {
		return
	}
	// the `used` marker slice: a []bool made per bucket
	isUsed := func(v ssa.Value) bool {
		ms, ok := v.(*ssa.MakeSlice)
		return ok && w.typeName(ms.Type()) == "[]bool"
	}
	bucketElemIdx := func(v ssa.Value) (ssa.Value, bool) {
		// v = bucket[idx] (a load of IndexAddr on an []int that is a map lookup result)
		u, ok := v.(*ssa.UnOp)
		if !ok {
			return nil, false
		}
		ia, ok := u.X.(*ssa.IndexAddr)
		if !ok || w.typeName(ia.X.Type()) != "[]int" {
			return nil, false
		}
		if _, isParam := ia.X.(*ssa.Parameter); isParam {
			return nil, false // blockIndices[...] is not the bucket
		}
		return ia.Index, true
	}
	joinSites := map[ssa.Instruction]string{}
	joinNo := map[ssa.Instruction]int{}
	joinLabel := func(site ssa.Instruction, idx string) string {
		if _, ok := joinNo[site]; !ok {
			joinNo[site] = len(joinNo) + 1
		}
		joinSites[site] = idx
		return fmt.Sprintf("joined:%s:#%d", idx, joinNo[site])
	}
	cl := &Classifier{
		Cond: func(c Cond, taken bool) *Event {
			if c.Op != "truth" {
				return nil
			}
			u, ok := c.X.(*ssa.UnOp)
			if !ok {
				return nil
			}
			ia, ok := u.X.(*ssa.IndexAddr)
			if !ok || !isUsed(ia.X) {
				return nil
			}
			if taken {
				return ev("skippedUsed")
			}
			return ev("free:" + ia.Index.Name())
		},
		Instr: func(in ssa.Instruction) *Event {
			st, ok := in.(*ssa.Store)
			if !ok {
				return nil
			}
			if ia, ok := st.Addr.(*ssa.IndexAddr); ok {
				if isUsed(ia.X) {
					if b, isC := constBool(st.Val); isC && b {
						return ev("marked:" + ia.Index.Name()).kill("joined:" + ia.Index.Name() + ":*")
					}
				}
				// the seed: a one-element []int literal holding bucket[s]
				if a, ok := ia.X.(*ssa.Alloc); ok && strings.Contains(a.Type().String(), "[1]int") && !isVarargsPack(a) {
					if idx, ok := bucketElemIdx(st.Val); ok {
						return &Event{May: []string{joinLabel(in, idx.Name())}}
					}
				}
			}
			return nil
		},
		Call: func(site ssa.Instruction, c *ssa.CallCommon) *Event {
			call, ok := site.(*ssa.Call)
			if !ok {
				return nil
			}
			base, elems, ok := appendedElems(call)
			if !ok || len(elems) != 1 {
				return nil
			}
			switch w.typeName(base.Type()) {
			case "[]int":
				if idx, ok := bucketElemIdx(elems[0]); ok {
					return &Event{May: []string{joinLabel(site, idx.Name())}}
				}
			case "[][]int":
				return ev("recorded")
			}
			return nil
		},
	}
	fl := newFlow(w, fn, cl)
	// joins: only on the not-yet-grouped edge; a join already preceded by its
	// mark in the same iteration (the seed) needs no later mark
	preMarked := map[string]bool{}
	groupHdrs := map[*ssa.BasicBlock]bool{}
	var seedHdr *ssa.BasicBlock
	var sites []ssa.Instruction
	for site := range joinSites {
		sites = append(sites, site)
	}
	sort.Slice(sites, func(i, j int) bool { return joinNo[sites[i]] < joinNo[sites[j]] })
	nSeed := 0
	for _, site := range sites {
		idx := joinSites[site]
		f := fl.Before(site)
		kind := "member"
		if _, isStore := site.(*ssa.Store); isStore {
			kind = "seed"
			nSeed++
			seedHdr = innermostHeader(site.Block())
		}
		r.check(f.Must("free:"+idx), rule, fmt.Sprintf("processPartitionBlocks:join-only-if-free(%s)", kind), w.instrPos(site), "joins only while not yet grouped", "a block index can join a merge group without having been tested as not-yet-grouped: the same block could be emitted in two groups (its rows duplicated)")
		if f.Must("marked:"+idx) || (kind == "seed" && seedNeverRevisited(site.(*ssa.Store), sites)) {
			preMarked[fmt.Sprintf("joined:%s:#%d", idx, joinNo[site])] = true
		}
		if h := innermostHeader(site.Block()); h != nil {
			groupHdrs[h] = true
		}
	}
	if len(sites) < 2 || nSeed != 1 || seedHdr == nil {
		r.undecided(rule, "processPartitionBlocks:joins", w.pos(fn.Pos()), fmt.Sprintf("expected one seed and at least one member join inside loops, found %d joins, %d seeds: %s", len(sites), nSeed, func() string {
			o := ""
			for _, s := range sites {
				o += w.instrPos(s) + " "
			}
			return o
		}()))
		return
	}
	// back edges of the grouping loops: nothing joined stays unmarked; every
	// seed-loop iteration records its group or skipped a grouped index
	for _, be := range backEdges(fn) {
		b := fn.Blocks[be[0]]
		hdr := b.Succs[be[1]]
		if !groupHdrs[hdr] {
			continue
		}
		for _, e := range iterationEnds(fl, b, be[1], 0) {
			f := e.facts
			var pending []string
			for l := range f.may {
				if strings.HasPrefix(l, "joined:") && !preMarked[l] {
					pending = append(pending, l)
				}
			}
			sort.Strings(pending)
			r.check(len(pending) == 0, rule, fmt.Sprintf("processPartitionBlocks:marked-before-next(b%d->b%d)", e.from.Index, hdr.Index), w.instrPos(e.from.Instrs[len(e.from.Instrs)-1]), "every joined index is marked grouped before the loop moves on", fmt.Sprintf("an index that joined a group is not marked grouped before the next iteration (%v): it can be seeded or joined again (duplicate rows)", pending))
			if hdr == seedHdr {
				r.check(f.Must("recorded") || f.Must("skippedUsed"), rule, fmt.Sprintf("processPartitionBlocks:seed-recorded(b%d->b%d)", e.from.Index, hdr.Index), w.instrPos(e.from.Instrs[len(e.from.Instrs)-1]), "each seed's group is recorded (or the index was already grouped)", "a seed's group can be dropped before it is recorded: its blocks are in no output file while their sources are deleted")
			}
		}
	}
	// the seed index counts 0,1,2,… up to len(bucket) of the very slice the seed
	// is read from: every bucket position is visited in turn
	var seedSite *ssa.Store
	for _, site := range sites {
		if st, ok := site.(*ssa.Store); ok {
			seedSite = st
		}
	}
	seedIdx := seedSite.Val.(*ssa.UnOp).X.(*ssa.IndexAddr).Index
	bucket := seedSite.Val.(*ssa.UnOp).X.(*ssa.IndexAddr).X
	init, bound, okUp := countsUp(seedIdx)
	visitsAll := false
	if okUp {
		z, isC := constInt(init)
		visitsAll = isC && z == 0 && lenOfValue(bound, bucket)
	}
	r.check(visitsAll, rule, "processPartitionBlocks:seed-loop-visits-every-index", w.instrPos(seedHdr.Instrs[0]), "seed index counts 0..len(bucket) by one", "the seed loop does not visit every bucket position in turn (its index does not count from 0 to len(bucket) by one): a block skipped inside a group's span is never seeded, copied or merged — its rows vanish when the sources are deleted")
}

// countsUp recognises a loop index that takes init, init+1, … while < bound:
// either the range form (v = phi[-1, v] + 1, tested v < bound, so init = 0) or
// the three-clause form (v = phi[init, v+1], tested v < bound).
func countsUp(v ssa.Value) (init ssa.Value, bound ssa.Value, ok bool) {
	isPlusOne := func(x ssa.Value, of ssa.Value) bool {
		b, ok := x.(*ssa.BinOp)
		if !ok || b.Op != token.ADD || b.X != of {
			return false
		}
		one, isC := constInt(b.Y)
		return isC && one == 1
	}
	headerBound := func(hdr *ssa.BasicBlock) ssa.Value {
		iff, ok := hdr.Instrs[len(hdr.Instrs)-1].(*ssa.If)
		if !ok {
			return nil
		}
		cmp, ok := iff.Cond.(*ssa.BinOp)
		if !ok || cmp.Op != token.LSS || cmp.X != v {
			return nil
		}
		// the loop body is the true successor
		return cmp.Y
	}
	switch x := v.(type) {
	case *ssa.BinOp: // range form
		ph, isPhi := x.X.(*ssa.Phi)
		if !isPhi || !isPlusOne(x, ph) || x.Block() != ph.Block() {
			return nil, nil, false
		}
		nInit := 0
		for i, e := range ph.Edges {
			if e == ssa.Value(x) && ph.Block().Dominates(ph.Block().Preds[i]) {
				continue
			}
			if c, isC := constInt(e); isC && c == -1 && !ph.Block().Dominates(ph.Block().Preds[i]) {
				nInit++
				continue
			}
			return nil, nil, false
		}
		bd := headerBound(ph.Block())
		if nInit != 1 || bd == nil {
			return nil, nil, false
		}
		return ssa.NewConst(constant.MakeInt64(0), x.Type()), bd, true
	case *ssa.Phi: // three-clause form
		var in ssa.Value
		for i, e := range x.Edges {
			if x.Block().Dominates(x.Block().Preds[i]) {
				if !isPlusOne(e, x) {
					return nil, nil, false
				}
				continue
			}
			if in != nil {
				return nil, nil, false
			}
			in = e
		}
		bd := headerBound(x.Block())
		if in == nil || bd == nil {
			return nil, nil, false
		}
		return in, bd, true
	}
	return nil, nil, false
}

func c11R3(w *World, r *Report) {
	const rule = "C11.R3"
	r.rule(rule, "merged metadata: the merged block's PartitionID is the key its blocks were grouped under; MinMaxIndexes is the union over every member (first member's map, then mergeMinMaxIndexes with each next one using (Min, Max) in that order)", 4)
	if fn := fnOrUndecided(w, r, rule, "BloomSearchEngine.mergeDataBlocks"); fn != nil {
		lit := blockLiteral(w, fn)
		if lit == nil {
			r.undecided(rule, "mergeDataBlocks:literal", w.pos(fn.Pos()), "DataBlockMetadata literal not found")
		} else {
			r.check(w.path(lit["PartitionID"]) == "p:partitionID", rule, "mergeDataBlocks:PartitionID", w.pos(fn.Pos()), "PartitionID = the partition being processed", "the merged block's PartitionID is "+w.path(lit["PartitionID"])+": rows change partition")
			mm := lit["MinMaxIndexes"]
			okc := false
			if ph, ok := mm.(*ssa.Phi); ok {
				okc = unionPhi(w, ph, map[*ssa.Phi]bool{})
			}
			r.check(okc, rule, "mergeDataBlocks:MinMaxIndexes", w.pos(fn.Pos()), "running union of the members' indexes", "the merged block's MinMaxIndexes is not the running union over all members ("+w.path(mm)+"): a strict minmax prefilter could prune rows that satisfy it")
		}
	}
	if fn := fnOrUndecided(w, r, rule, "BloomSearchEngine.executeMergeGroup"); fn != nil {
		for _, in := range w.callSitesIn(fn, "BloomSearchEngine.processPartitionBlocks") {
			c := callOf(in)
			// partitionID argument is the range key of a map keyed by block.PartitionID
			p := w.path(c.Args[5])
			okKey := strings.HasPrefix(p, "next(range(")
			keyed := false
			eachInstr(fn, func(x ssa.Instruction) {
				if mu, ok := x.(*ssa.MapUpdate); ok && strings.HasSuffix(w.path(mu.Key), ".block.PartitionID") {
					keyed = true
				}
			})
			r.check(okKey && keyed, rule, "executeMergeGroup:partition-key", w.instrPos(in), "blocks grouped by their own PartitionID and processed under that key", "blocks are not grouped by block.PartitionID (or processed under a different key)")
		}
	}
	if fn := fnOrUndecided(w, r, rule, "BloomSearchEngine.mergeMinMaxIndexes"); fn != nil {
		n := 0
		for _, in := range w.callSitesIn(fn, "UpdateMinMaxIndex") {
			n++
			c := callOf(in)
			okc := strings.HasSuffix(w.path(c.Args[1]), ".Min") && strings.HasSuffix(w.path(c.Args[2]), ".Max")
			r.check(okc, rule, "mergeMinMaxIndexes:Update(Min,Max)", w.instrPos(in), "(index2.Min, index2.Max)", "UpdateMinMaxIndex receives ("+w.path(c.Args[1])+", "+w.path(c.Args[2])+"): min and max are swapped or wrong")
		}
		if n == 0 {
			r.bad(rule, "mergeMinMaxIndexes:Update", w.pos(fn.Pos()), "ranges of a key present in both blocks are not combined")
		}
	}
}

// unionPhi: the phi's operands are the first member's map, or
// mergeMinMaxIndexes(previous, member's map), or nil (before the loop).
func unionPhi(w *World, ph *ssa.Phi, seen map[*ssa.Phi]bool) bool {
	if seen[ph] {
		// an edge back to a phi already on the chain: the running value can
		// pass through an iteration unchanged, i.e. a member was not merged in
		return false
	}
	seen[ph] = true
	for _, e := range ph.Edges {
		switch x := e.(type) {
		case *ssa.Const:
			if !x.IsNil() {
				return false
			}
		case *ssa.Phi:
			if !unionPhi(w, x, seen) {
				return false
			}
		case *ssa.Call:
			if !w.isCallTo(&x.Call, "BloomSearchEngine.mergeMinMaxIndexes") {
				return false
			}
			if _, ok := x.Call.Args[1].(*ssa.Phi); !ok {
				return false
			}
			if !strings.HasSuffix(w.path(x.Call.Args[2]), ".block.MinMaxIndexes") {
				return false
			}
		default:
			if !strings.HasSuffix(w.path(e), ".block.MinMaxIndexes") {
				return false
			}
		}
	}
	return true
}

// blockLiteral returns the field values of the DataBlockMetadata composite
// literal built in fn (the one appended to a block list).
func blockLiteral(w *World, fn *ssa.Function) map[string]ssa.Value {
	var out map[string]ssa.Value
	eachInstr(fn, func(in ssa.Instruction) {
		a, ok := in.(*ssa.Alloc)
		if !ok || w.typeName(a.Type()) != "*DataBlockMetadata" || a.Comment != "complit" {
			return
		}
		m := map[string]ssa.Value{}
		for _, ref := range *a.Referrers() {
			if fa, ok := ref.(*ssa.FieldAddr); ok {
				for _, r2 := range *fa.Referrers() {
					if st, ok := r2.(*ssa.Store); ok && st.Addr == fa {
						m[fieldName(a.Type(), fa.Field)] = st.Val
					}
				}
			}
		}
		if len(m) > 3 {
			out = m
		}
	})
	return out
}

func c11R4(w *World, r *Report) {
	const rule = "C11.R4"
	r.rule(rule, "verbatim copy: copyDataBlock writes exactly the bytes read at [RowDataOffset,+RowDataSize) after decodeBlockRowData verified them; the new metadata is a struct copy with only RowDataOffset, BloomFilterOffset, BloomFilterSize overwritten; every row is re-indexed into the file-level set", 4)
	fn := fnOrUndecided(w, r, rule, "BloomSearchEngine.copyDataBlock")
	if fn == nil {
		return
	}
	// the buffer: make([]byte, block.RowDataSize), filled by readFullAt(file, buf, block.RowDataOffset)
	var buf ssa.Value
	for _, in := range w.callSitesIn(fn, "readFullAt") {
		c := callOf(in)
		if strings.HasSuffix(w.path(c.Args[2]), "block.RowDataOffset") {
			buf = c.Args[1]
			ms, ok := buf.(*ssa.MakeSlice)
			r.check(ok && strings.HasSuffix(w.path(ms.Len), "block.RowDataSize"), rule, "copyDataBlock:read-extent", w.instrPos(in), "reads RowDataSize bytes at RowDataOffset", "the copied extent is not [RowDataOffset, +RowDataSize)")
		}
	}
	if buf == nil {
		r.undecided(rule, "copyDataBlock:read", w.pos(fn.Pos()), "row data read not found")
		return
	}
	cl := &Classifier{CallEdge: func(call ssa.Value, outcome string) *Event {
		c, ok := call.(*ssa.Call)
		if !ok || outcome != "ok" {
			if ok && outcome == "false" && w.calleeName(&c.Call) == "BlockRowScanner.Next" {
				return ev("reindexedAll")
			}
			return nil
		}
		switch w.calleeName(&c.Call) {
		case "decodeBlockRowData":
			if c.Call.Args[0] == buf {
				return ev("verified")
			}
		case "readFullAt":
			if c.Call.Args[1] == buf {
				return ev("read")
			}
		}
		return nil
	}, Call: func(site ssa.Instruction, c *ssa.CallCommon) *Event {
		if w.calleeName(c) == "bloomEntrySets.indexRow" && w.path(c.Args[0]) == "p:fileEntries" {
			return ev("indexedRow")
		}
		return nil
	}}
	fl := newFlow(w, fn, cl)
	nw := 0
	for _, in := range w.callSitesIn(fn, "io.Writer.Write") {
		c := callOf(in)
		nw++
		f := fl.Before(in)
		r.check(c.Args[0] == buf && f.Must("read") && f.Must("verified") && f.Must("reindexedAll"), rule, "copyDataBlock:write", w.instrPos(in), "writes the verified bytes after re-indexing every row", fmt.Sprintf("the block is written with same-buffer=%v read-ok=%v verified=%v all-rows-reindexed=%v", c.Args[0] == buf, f.Must("read"), f.Must("verified"), f.Must("reindexedAll")))
	}
	if nw != 1 {
		r.undecided(rule, "copyDataBlock:write", w.pos(fn.Pos()), fmt.Sprintf("expected one output write, found %d", nw))
	}
	for _, in := range w.callSitesIn(fn, "BlockRowScanner.Next") {
		backs := loopBackEdgeFacts(fl, in)
		okc := len(backs) > 0
		for _, f := range backs {
			if !f.Must("indexedRow") {
				okc = false
			}
		}
		r.check(okc, rule, "copyDataBlock:reindex-every-row", w.instrPos(in), "each scanned row indexed into the file-level set", "a copied block's rows are not all re-indexed into the file-level entry set: file-level filters would rule out rows the block holds")
	}
	// struct copy with three overwrites
	var copyAlloc *ssa.Alloc
	eachInstr(fn, func(in ssa.Instruction) {
		if a, ok := in.(*ssa.Alloc); ok && a.Comment == "newBlockMetadata" {
			copyAlloc = a
		}
	})
	if copyAlloc == nil {
		r.undecided(rule, "copyDataBlock:metadata-copy", w.pos(fn.Pos()), "the copied metadata variable was not found")
		return
	}
	whole := false
	over := map[string]string{}
	for _, ref := range *copyAlloc.Referrers() {
		switch x := ref.(type) {
		case *ssa.Store:
			if x.Addr == copyAlloc && strings.HasSuffix(w.path(x.Val), "block") {
				whole = true
			}
		case *ssa.FieldAddr:
			for _, r2 := range *x.Referrers() {
				if st, ok := r2.(*ssa.Store); ok && st.Addr == x {
					over[fieldName(copyAlloc.Type(), x.Field)] = w.path(st.Val)
				}
			}
		}
	}
	allowed := map[string]bool{"RowDataOffset": true, "BloomFilterOffset": true, "BloomFilterSize": true}
	okOver := whole
	for f := range over {
		if !allowed[f] {
			okOver = false
		}
	}
	r.check(okOver && over["RowDataOffset"] == "*p:currentOffset", rule, "copyDataBlock:metadata-copy", w.pos(fn.Pos()), "struct copy; only location fields rewritten; RowDataOffset = current offset", fmt.Sprintf("the copied block's metadata is rewritten beyond its location (whole-copy=%v, overwritten=%v): partition, ranges, counts or hash no longer describe the copied bytes", whole, over))
}

// ---------------------------------------------------------------------------

func checkC12(w *World, r *Report, tier string) propMeta {
	c12R1(w, r)
	c12R2(w, r)
	return propMeta{
		explanation: "Guard shape of the merge limits: (R1) in processPartitionBlocks a block joins a group only on the true edges of both cumulative checks `currentRows + other.Rows <= MaxRowGroupRows` and `currentSize + other.UncompressedSize <= MaxRowGroupBytes`, and the accumulators then grow by exactly those operands; in identifyFileMergeGroups a file joins a group only past the false edges of `newSize > MaxFileSize` and `total + len(group) + 1 > MaxFilesToMergePerOperation`, the group size becomes newSize, and the outer loop stops at `total >= MaxFilesToMergePerOperation`; (R2) blocks are bucketed by blockMergeKey (partition + sorted minmax key set, length-prefixed) before grouping and a group's members all come from one bucket.",
		notDecided:  "The inequalities' arithmetic over runtime values (linear, not order-only); that a single oversized source block is copied as-is (allowed by the property: 'a block produced by combining blocks').",
	}
}

// limitGuards returns labels for comparisons against config limits:
// "within:<Limit>" on the edge where `x <= config.Limit` holds (or `x > limit` fails).
func limitGuardClassifier(w *World, onCond func(limit string, other ssa.Value)) *Classifier {
	return &Classifier{Cond: func(c Cond, taken bool) *Event {
		if c.Y == nil {
			return nil
		}
		lx, ly := w.path(c.X), w.path(c.Y)
		const pre = "p:b.config."
		var limit string
		var other ssa.Value
		var within bool
		switch {
		case strings.HasPrefix(ly, pre):
			limit, other = strings.TrimPrefix(ly, pre), c.X
			within = (c.Op == "<=" && taken) || (c.Op == ">" && !taken)
			if c.Op == "<" || c.Op == ">=" {
				// strict variants are not the documented inclusive limit
				if onCond != nil {
					onCond(limit+":strict", other)
				}
				within = (c.Op == "<" && taken) || (c.Op == ">=" && !taken)
			}
		case strings.HasPrefix(lx, pre):
			limit, other = strings.TrimPrefix(lx, pre), c.Y
			within = (c.Op == ">=" && taken) || (c.Op == "<" && !taken)
		default:
			return nil
		}
		if onCond != nil {
			onCond(limit, other)
		}
		// a guard whose tested operand includes the size of the group being grown
		// is the per-group guard; it gets its own label
		// (the per-group guard adds the group's own size to a running total: both a
		// len() term and an accumulated variable must appear in the tested operand)
		suffix := ""
		if directLen(other, 0) && len(phiComments(other)) > 0 {
			suffix = "+len"
		}
		if within {
			if suffix != "" {
				return ev("within:"+limit, "within:"+limit+suffix)
			}
			return ev("within:" + limit)
		}
		return ev("beyond:" + limit)
	}}
}

// directLen reports whether an arithmetic expression (not looking through
// phis) contains a builtin len() call.
func directLen(v ssa.Value, d int) bool {
	if d > 6 {
		return false
	}
	switch x := v.(type) {
	case *ssa.BinOp:
		return directLen(x.X, d+1) || directLen(x.Y, d+1)
	case *ssa.Convert:
		return directLen(x.X, d+1)
	case *ssa.Call:
		if b, ok := x.Call.Value.(*ssa.Builtin); ok && b.Name() == "len" {
			return true
		}
	}
	return false
}

// phiComments lists "phivar:<name>" for every source variable (phi) an
// arithmetic expression reads.
func phiComments(v ssa.Value) []string {
	var out []string
	seen := map[ssa.Value]bool{}
	var rec func(v ssa.Value, d int)
	rec = func(v ssa.Value, d int) {
		if v == nil || seen[v] || d > 8 {
			return
		}
		seen[v] = true
		switch x := v.(type) {
		case *ssa.Phi:
			if x.Comment != "" {
				out = append(out, "phivar:"+x.Comment)
			}
		case *ssa.BinOp:
			rec(x.X, d+1)
			rec(x.Y, d+1)
		case *ssa.Convert:
			rec(x.X, d+1)
		}
	}
	rec(v, 0)
	return out
}

func c12R1(w *World, r *Report) {
	const rule = "C12.R1"
	r.rule(rule, "guarded growth: block groups grow only within both cumulative row-group limits (accumulators advance by the tested operands); file groups grow only within MaxFileSize and MaxFilesToMergePerOperation; the outer file loop stops at the per-operation cap", 6)
	if fn := fnOrUndecided(w, r, rule, "BloomSearchEngine.processPartitionBlocks"); fn != nil {
		operands := map[string][]string{}
		cl := limitGuardClassifier(w, func(limit string, other ssa.Value) {
			operands[limit] = append(operands[limit], sortedKeys(w.leaves(other))...)
			operands[limit] = append(operands[limit], phiComments(other)...)
		})
		fl := newFlow(w, fn, cl)
		n := 0
		eachInstr(fn, func(in ssa.Instruction) {
			c, ok := in.(*ssa.Call)
			if !ok {
				return
			}
			base, elems, ok := appendedElems(c)
			if !ok || len(elems) != 1 || w.typeName(base.Type()) != "[]int" {
				return
			}
			// the append that grows a group inside the inner candidate loop (not the seed literal)
			if _, isPhi := base.(*ssa.Phi); !isPhi {
				return
			}
			if loopOf(in.Block()) == nil {
				return
			}
			// distinguish currentGroup growth (element is bucket[o]) from mergeGroups/bucketOrder appends
			if !strings.Contains(w.path(elems[0]), "[") {
				return
			}
			n++
			f := fl.Before(in)
			r.check(f.Must("within:MaxRowGroupRows") && f.Must("within:MaxRowGroupBytes"), rule, fmt.Sprintf("processPartitionBlocks:group-growth#%d", n), w.instrPos(in), "joins only within both row-group limits", fmt.Sprintf("a block joins a merge group with rows-check=%v bytes-check=%v on the path: a merged block can exceed MaxRowGroupRows/MaxRowGroupBytes", f.Must("within:MaxRowGroupRows"), f.Must("within:MaxRowGroupBytes")))
		})
		if n == 0 {
			r.undecided(rule, "processPartitionBlocks:group-growth", w.pos(fn.Pos()), "the append that grows a block group was not found")
		}
		// cumulative operands: the tested sums involve the running accumulators and the candidate's Rows/UncompressedSize
		for _, spec := range []struct{ limit, field, acc string }{{"MaxRowGroupRows", ".Rows", "currentRows"}, {"MaxRowGroupBytes", ".UncompressedSize", "currentSize"}} {
			hasField, hasAcc := false, false
			for _, l := range operands[spec.limit] {
				if strings.HasSuffix(l, spec.field) {
					hasField = true
				}
				if l == "phivar:"+spec.acc {
					hasAcc = true
				}
			}
			r.check(hasField && hasAcc, rule, "processPartitionBlocks:cumulative("+spec.limit+")", w.pos(fn.Pos()), "tests running total + candidate", fmt.Sprintf("no comparison of (running %s + candidate%s) against config.%s: only pairwise checks remain, so a group can grow past the limit", spec.acc, spec.field, spec.limit))
		}
		// accumulators advance by the candidate's operands
		for _, spec := range []struct{ acc, field string }{{"currentRows", ".Rows"}, {"currentSize", ".UncompressedSize"}} {
			found := false
			eachInstr(fn, func(in ssa.Instruction) {
				ph, ok := in.(*ssa.Phi)
				if !ok || ph.Comment != spec.acc {
					return
				}
				for _, e := range ph.Edges {
					if b, ok := e.(*ssa.BinOp); ok && b.Op == token.ADD && strings.HasSuffix(w.path(b.Y), spec.field) {
						if _, isPhi := b.X.(*ssa.Phi); isPhi {
							found = true
						}
					}
				}
			})
			r.check(found, rule, "processPartitionBlocks:accumulate("+spec.acc+")", w.pos(fn.Pos()), "accumulator advances by the joined block's "+spec.field, "the running "+spec.acc+" does not advance by the joined block's "+spec.field+": later cumulative checks test a stale total")
		}
	}
	if fn := fnOrUndecided(w, r, rule, "BloomSearchEngine.identifyFileMergeGroups"); fn != nil {
		operands := map[string][]string{}
		var sizeSums []ssa.Value
		cl := limitGuardClassifier(w, func(limit string, other ssa.Value) {
			operands[limit] = append(operands[limit], sortedKeys(w.leaves(other))...)
			if limit == "MaxFileSize" {
				sizeSums = append(sizeSums, other)
			}
		})
		fl := newFlow(w, fn, cl)
		n := 0
		eachInstr(fn, func(in ssa.Instruction) {
			c, ok := in.(*ssa.Call)
			if !ok {
				return
			}
			base, elems, ok := appendedElems(c)
			if !ok || len(elems) != 1 || w.typeName(base.Type()) != "[]fileMergeCandidate" {
				return
			}
			if _, isPhi := base.(*ssa.Phi); !isPhi {
				return
			}
			n++
			f := fl.Before(in)
			r.check(f.Must("within:MaxFileSize") && f.Must("within:MaxFilesToMergePerOperation+len"), rule, fmt.Sprintf("identifyFileMergeGroups:group-growth#%d", n), w.instrPos(in), "joins only within MaxFileSize and the per-operation file cap", fmt.Sprintf("a file joins a merge group with size-check=%v count-check=%v on the path", f.Must("within:MaxFileSize"), f.Must("within:MaxFilesToMergePerOperation")))
		})
		if n == 0 {
			r.undecided(rule, "identifyFileMergeGroups:group-growth", w.pos(fn.Pos()), "the append that grows a file group was not found")
		}
		hasNew := false
		for _, l := range operands["MaxFileSize"] {
			if strings.HasSuffix(l, ".statistics.totalSize") {
				hasNew = true
			}
		}
		r.check(hasNew, rule, "identifyFileMergeGroups:size-operand", w.pos(fn.Pos()), "tests group size + candidate size", "MaxFileSize is not compared against the group's size plus the candidate's totalSize")
		// the tested sum is what the group's size becomes when the file joins:
		// tested = acc + candidate.totalSize with acc a loop-carried value whose
		// next value is that same sum on the joining path and acc itself otherwise
		carried := false
		var joinBlocks []*ssa.BasicBlock
		eachInstr(fn, func(in ssa.Instruction) {
			if c, ok := in.(*ssa.Call); ok {
				if base, elems, ok := appendedElems(c); ok && len(elems) == 1 && w.typeName(base.Type()) == "[]fileMergeCandidate" {
					if _, isPhi := base.(*ssa.Phi); isPhi {
						joinBlocks = append(joinBlocks, in.Block())
					}
				}
			}
		})
		for _, sum := range sizeSums {
			b, ok := sum.(*ssa.BinOp)
			if !ok || b.Op != token.ADD {
				continue
			}
			acc, isPhi := b.X.(*ssa.Phi)
			cand := b.Y
			if !isPhi {
				acc, isPhi = b.Y.(*ssa.Phi)
				cand = b.X
			}
			if !isPhi || !strings.HasSuffix(w.path(cand), ".statistics.totalSize") {
				continue
			}
			sameSum := func(v ssa.Value) bool {
				x, ok := v.(*ssa.BinOp)
				if !ok || x.Op != token.ADD {
					return false
				}
				return (x.X == ssa.Value(acc) && w.path(x.Y) == w.path(cand)) || (x.Y == ssa.Value(acc) && w.path(x.X) == w.path(cand))
			}
			viaJoin := func(p *ssa.BasicBlock) bool {
				for _, jb := range joinBlocks {
					if jb == p || jb.Dominates(p) {
						return true
					}
				}
				return false
			}
			var next func(v ssa.Value, from *ssa.BasicBlock, depth int) bool
			next = func(v ssa.Value, from *ssa.BasicBlock, depth int) bool {
				if depth > 6 {
					return false
				}
				if ph, ok := v.(*ssa.Phi); ok && ph != acc {
					for k, e := range ph.Edges {
						if !next(e, ph.Block().Preds[k], depth+1) {
							return false
						}
					}
					return true
				}
				if viaJoin(from) {
					return sameSum(v)
				}
				return v == ssa.Value(acc)
			}
			okAcc, nBack := true, 0
			for k, e := range acc.Edges {
				pred := acc.Block().Preds[k]
				if !acc.Block().Dominates(pred) {
					continue // the seed's own size on loop entry
				}
				nBack++
				if !next(e, pred, 0) {
					okAcc = false
				}
			}
			if okAcc && nBack > 0 && len(joinBlocks) > 0 {
				carried = true
			}
		}
		r.check(carried, rule, "identifyFileMergeGroups:size-accumulates", w.pos(fn.Pos()), "the tested sum becomes the group's size when the file joins", "the size tested against MaxFileSize is not carried forward as the group's size when a file joins (the running total stays at the seed's size or advances by something else): a group of three or more files can exceed MaxFileSize")
		r.check(len(operands["MaxFilesToMergePerOperation"]) >= 2, rule, "identifyFileMergeGroups:count-guards", w.pos(fn.Pos()), "both the per-group and the per-operation file-count guards exist", "a file-count guard against MaxFilesToMergePerOperation is missing: one Merge can remove more source files than configured")
		_, strict := operands["MaxFileSize:strict"]
		r.check(!strict, rule, "identifyFileMergeGroups:size-inclusive", w.pos(fn.Pos()), "inclusive limit", "MaxFileSize is tested with a strict comparison")
	}
	if fn := w.fn("BloomSearchEngine.blocksWithinMergeLimits"); fn != nil {
		fl := newFlow(w, fn, limitGuardClassifier(w, nil))
		okc := true
		for _, ret := range fl.Returns() {
			for _, v := range retVals(w, ret, 0) {
				if b, isC := constBool(v); isC && b {
					f := fl.Before(ret)
					if !f.Must("within:MaxRowGroupRows") || !f.Must("within:MaxRowGroupBytes") {
						okc = false
					}
				}
			}
		}
		_ = okc
	}
}

func c12R2(w *World, r *Report) {
	const rule = "C12.R2"
	r.rule(rule, "one bucket per group: blocks are bucketed by blockMergeKey before grouping; the key covers the partition ID and every minmax key, length-prefixed and sorted", 3)
	if fn := fnOrUndecided(w, r, rule, "BloomSearchEngine.processPartitionBlocks"); fn != nil {
		keyed := false
		eachInstr(fn, func(in ssa.Instruction) {
			if mu, ok := in.(*ssa.MapUpdate); ok {
				if c, ok := mu.Key.(*ssa.Call); ok && w.isCallTo(&c.Call, "blockMergeKey") {
					keyed = true
				}
			}
		})
		r.check(keyed, rule, "processPartitionBlocks:bucket-by-key", w.pos(fn.Pos()), "buckets keyed by blockMergeKey", "blocks are no longer bucketed by blockMergeKey before grouping: blocks with different minmax key sets can merge, widening strict-prefilter visibility")
		// group members come from one bucket: the seed and the joined elements index the same `bucket` slice
		srcs := map[string]bool{}
		eachInstr(fn, func(in ssa.Instruction) {
			c, ok := in.(*ssa.Call)
			if !ok {
				return
			}
			base, elems, ok := appendedElems(c)
			if ok && len(elems) == 1 && w.typeName(base.Type()) == "[]int" {
				if _, isPhi := base.(*ssa.Phi); isPhi && loopOf(in.Block()) != nil {
					p := w.path(elems[0])
					if i := strings.Index(p, "["); i > 0 {
						srcs[p[:i]] = true
					}
				}
			}
		})
		delete(srcs, "")
		r.check(len(srcs) >= 1, rule, "processPartitionBlocks:members-from-bucket", w.pos(fn.Pos()), "members indexed from the bucket slice", "group members are not drawn from a single bucket slice")
	}
	if fn := fnOrUndecided(w, r, rule, "blockMergeKey"); fn != nil {
		usesPartition, usesKeys, sorted, prefixed := false, false, false, 0
		eachInstr(fn, func(in ssa.Instruction) {
			switch x := in.(type) {
			case *ssa.Call:
				n := w.calleeName(&x.Call)
				if n == "sort.Strings" {
					sorted = true
				}
				if n == "encoding/binary.AppendUvarint" {
					prefixed++
				}
				if b, ok := x.Call.Value.(*ssa.Builtin); ok && b.Name() == "append" {
					for _, a := range x.Call.Args {
						if strings.HasSuffix(w.path(a), ".PartitionID") {
							usesPartition = true
						}
					}
				}
			case *ssa.Range:
				if strings.HasSuffix(w.path(x.X), ".MinMaxIndexes") {
					usesKeys = true
				}
			}
		})
		r.check(usesPartition && usesKeys && sorted && prefixed >= 2, rule, "blockMergeKey:covers-partition-and-keyset", w.pos(fn.Pos()), "partition + sorted, length-prefixed minmax keys", fmt.Sprintf("blockMergeKey no longer covers partition=%v keyset=%v sorted=%v length-prefixes=%d: distinct (partition, key set) tuples can share a bucket", usesPartition, usesKeys, sorted, prefixed))
	}
}

// lenOfValue: v is len(x) for exactly the SSA value x.
func lenOfValue(v, x ssa.Value) bool {
	c, ok := v.(*ssa.Call)
	if !ok {
		return false
	}
	b, ok := c.Call.Value.(*ssa.Builtin)
	return ok && b.Name() == "len" && len(c.Call.Args) == 1 && c.Call.Args[0] == x
}

// isVarargsPack: the array only backs the variadic argument of an append call
// (append(xs, v) is lowered to a one-element array, a slice of it, and the call).
func isVarargsPack(a *ssa.Alloc) bool {
	for _, ref := range *a.Referrers() {
		sl, ok := ref.(*ssa.Slice)
		if !ok {
			continue
		}
		for _, r2 := range *sl.Referrers() {
			if c, ok := r2.(*ssa.Call); ok {
				if b, ok := c.Call.Value.(*ssa.Builtin); ok && b.Name() == "append" && len(c.Call.Args) == 2 && c.Call.Args[1] == ssa.Value(sl) {
					return true
				}
			}
		}
	}
	return false
}

// seedNeverRevisited: every member index counts up from seed+1 and the seed
// index itself counts up, so the seed position is never tested again — its
// grouped mark is then redundant and not demanded.
func seedNeverRevisited(seed *ssa.Store, sites []ssa.Instruction) bool {
	seedIdx := seed.Val.(*ssa.UnOp).X.(*ssa.IndexAddr).Index
	if _, _, ok := countsUp(seedIdx); !ok {
		return false
	}
	n := 0
	for _, s := range sites {
		call, ok := s.(*ssa.Call)
		if !ok {
			continue
		}
		_, elems, ok := appendedElems(call)
		if !ok || len(elems) != 1 {
			return false
		}
		u, ok := elems[0].(*ssa.UnOp)
		if !ok {
			return false
		}
		ia, ok := u.X.(*ssa.IndexAddr)
		if !ok {
			return false
		}
		init, _, ok := countsUp(ia.Index)
		if !ok {
			return false
		}
		b, ok := init.(*ssa.BinOp)
		if !ok || b.Op != token.ADD || b.X != seedIdx {
			return false
		}
		if one, isC := constInt(b.Y); !isC || one < 1 {
			return false
		}
		n++
	}
	return n > 0
}

type iterEnd struct {
	from  *ssa.BasicBlock
	facts *Facts
}

// iterationEnds returns the facts at the end of each way through a loop body:
// the back edge itself, or — when the back edge leaves a pure post block (only
// phis, arithmetic and the jump, as in `for ...; i++`) that several paths
// (`continue`s) fall into — each edge into that block, so that the paths are
// judged separately instead of through their merge.
func iterationEnds(fl *Flow, b *ssa.BasicBlock, si int, depth int) []iterEnd {
	pure := len(b.Preds) > 1 && depth < 4
	for _, in := range b.Instrs {
		switch in.(type) {
		case *ssa.Phi, *ssa.BinOp, *ssa.Jump:
		default:
			pure = false
		}
	}
	if pure {
		var out []iterEnd
		for _, p := range b.Preds {
			for pi, s := range p.Succs {
				if s == b {
					out = append(out, iterationEnds(fl, p, pi, depth+1)...)
				}
			}
		}
		return out
	}
	if f := fl.EdgeFacts(b, si); f != nil {
		return []iterEnd{{b, f}}
	}
	return nil
}
