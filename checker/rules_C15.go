package main

import (
	"fmt"
	"go/constant"
	"go/types"
	"strings"

	"golang.org/x/tools/go/ssa"
)

// C15 — crash consistency of the filesystem store (publish protocol);
// C16 — FileSystemDataStore vs its specification.

func init() {
	register("C15", checkC15)
	register("C16", checkC16)
}

func checkC15(w *World, r *Report, tier string) propMeta {
	c15R1(w, r, "C15.R1")
	c15R2(w, r, "C15.R2")
	c15R3(w, r, "C15.R3")
	c15R4(w, r, "C15.R4")
	c14R3(w, r, "C15.R5")
	c15R5(w, r)
	c13R1(w, r)     // the merge output is referenced only after footer-ok and Close-ok
	c13R2R3R4(w, r) // sources removed only after the one Update-ok; outputs removed only on failure paths before it
	return propMeta{
		explanation: "The publish protocol of FileSystemDataStore as path rules: (R1) in renameOnCloseFile.Close the rename follows Sync-ok then Close-ok of the temp file, and `published = true` / `return nil` follow Rename-ok then syncDir-ok of the final path's directory; syncDir reports a failed fsync; (R2) both creates in CreateFile are O_CREATE|O_EXCL, the reservation of the final .dat path precedes the temp create, and every failure after the reservation removes it before returning or redrawing; (R3) the directory scan yields only .dat entries whose footer parsed (readFileMetadata-ok), and the temp suffix differs from the scanned one; (R4) TombstoneFile removes the final path on every path and the derived temp path whenever the pointer ends in .dat, and that temp path is derived only through end-anchored string functions (TrimSuffix/CutSuffix, not Replace); Abort removes both unless published; (R5) commit atomicity and durability of Update — known findings F1 (writes ignored) and F2 (removals not followed by a directory fsync, their errors dropped).",
		notDecided:  "The crash-point enumeration itself (needs a filesystem hook and execution — outside this family); what a real filesystem persists between fsyncs.",
	}
}

func checkC16(w *World, r *Report, tier string) propMeta {
	c15R1(w, r, "C16.R2")
	c15R2(w, r, "C16.R3")
	c15R3(w, r, "C16.R4")
	c15R4(w, r, "C16.R5")
	c16R1(w, r)
	return propMeta{
		explanation: "Structural conformance of FileSystemDataStore to its specification: (R1) CreateFile returns as pointer the very path it reserved (the .dat name), hands the writer that path as finalPath and the .tmp sibling as tempPath; OpenFile opens exactly the pointer; the name-draw loop retries only on IsExist; plus the publish-protocol rules shared with C15 (R2–R5 here = C15.R1–R4): exclusive creates, reservation before temp, rename only after sync+close, scan limited to parsed .dat files, tombstone/abort remove every artifact (the tombstoned temp path is the pointer with only its trailing .dat swapped).",
		notDecided:  "The history-level specification (arbitrary call sequences, forced collisions, payload equality) — needs execution against a model.",
	}
}

// variadicElems returns the values stored into the backing array of a
// variadic slice argument.
func variadicElems(v ssa.Value) []ssa.Value {
	sl, ok := v.(*ssa.Slice)
	if !ok {
		return nil
	}
	arr, ok := sl.X.(*ssa.Alloc)
	if !ok {
		return nil
	}
	var out []ssa.Value
	for _, ref := range *arr.Referrers() {
		if ia, ok := ref.(*ssa.IndexAddr); ok {
			for _, r2 := range *ia.Referrers() {
				if st, ok := r2.(*ssa.Store); ok && st.Addr == ia {
					out = append(out, st.Val)
				}
			}
		}
	}
	return out
}

// strConstsOf collects the string constants a value is assembled from
// (through +, conversions, and the arguments of pure path/string helpers).
func strConstsOf(w *World, v ssa.Value) map[string]bool {
	out := map[string]bool{}
	seen := map[ssa.Value]bool{}
	var rec func(v ssa.Value, d int)
	rec = func(v ssa.Value, d int) {
		if v == nil || seen[v] || d > 12 {
			return
		}
		seen[v] = true
		switch x := v.(type) {
		case *ssa.Const:
			if x.Value != nil && x.Value.Kind() == constant.String {
				out[constant.StringVal(x.Value)] = true
			}
		case *ssa.Extract:
			rec(x.Tuple, d+1) // strings.CutSuffix and friends return (string, bool)
		case *ssa.Parameter:
			// inside a helper analysed in line: the argument of the call at hand
			if a, ok := w.paramCtx[x]; ok {
				rec(a, d+1)
			} else if c := w.uniqueCallSite(x.Parent()); c != nil {
				for i, p := range x.Parent().Params {
					if p == x && i < len(c.Call.Args) {
						rec(c.Call.Args[i], d+1)
					}
				}
			}
		case *ssa.BinOp:
			rec(x.X, d+1)
			rec(x.Y, d+1)
		case *ssa.Convert:
			rec(x.X, d+1)
		case *ssa.ChangeType:
			rec(x.X, d+1)
		case *ssa.Phi:
			for _, e := range x.Edges {
				rec(e, d+1)
			}
		case *ssa.Call:
			n := w.calleeName(&x.Call)
			if strings.HasPrefix(n, "path/filepath.") || strings.HasPrefix(n, "strings.") {
				out["call:"+n] = true // which string functions the value went through (c15R4: suffix-anchored or not)
				for _, a := range x.Call.Args {
					rec(a, d+1)
					for _, e := range variadicElems(a) {
						rec(e, d+1)
					}
				}
			}
		case *ssa.UnOp:
			rec(x.X, d+1)
		case *ssa.Alloc:
			if sv := singleStoredValue(x); sv != nil {
				rec(sv, d+1)
			}
		}
	}
	rec(v, 0)
	return out
}

func osConst(w *World, name string) (int64, bool) {
	for _, p := range w.Pkg.Imports {
		if p.PkgPath == "os" {
			if c, ok := p.Types.Scope().Lookup(name).(*types.Const); ok {
				return constant.Int64Val(c.Val())
			}
		}
	}
	return 0, false
}

var fsCalls = map[string]string{
	"(*os.File).Sync":  "Sync",
	"(*os.File).Close": "fClose",
	"os.Rename":        "Rename",
	"syncDir":          "syncDir",
	"os.Open":          "Open",
}

func c15R1(w *World, r *Report, rule string) {
	r.rule(rule, "publish order: in renameOnCloseFile.Close, os.Rename follows Sync-ok then Close-ok; `published = true` and `return nil` follow Rename-ok then syncDir-ok; syncDir returns nil only after the directory's Sync succeeded", 5)
	fn := fnOrUndecided(w, r, rule, "renameOnCloseFile.Close")
	if fn == nil {
		return
	}
	fl := newFlow(w, fn, namedCalls(w, fsCalls))
	nRename := 0
	for _, in := range w.callSitesIn(fn, "os.Rename") {
		nRename++
		f := fl.Before(in)
		c := callOf(in)
		argsOK := w.path(c.Args[0]) == "p:f.tempPath" && w.path(c.Args[1]) == "p:f.finalPath"
		r.check(f.Must("ok:Sync") && f.Must("ok:fClose") && argsOK, rule, "Close:rename", w.instrPos(in), "rename(temp→final) only after fsync and close succeeded", fmt.Sprintf("the file is renamed into place with Sync-ok=%v Close-ok=%v (temp→final args=%v): a crash can expose a published name with missing data", f.Must("ok:Sync"), f.Must("ok:fClose"), argsOK))
	}
	if nRename == 0 {
		r.bad(rule, "Close:rename", w.pos(fn.Pos()), "Close no longer renames the temp file over the reservation")
	}
	for _, in := range w.callSitesIn(fn, "(*os.File).Close") {
		f := fl.Before(in)
		r.check(f.Must("ok:Sync") || f.Must("fail:Sync"), rule, "Close:close-after-sync", w.instrPos(in), "file closed only after Sync was attempted", "the temp file is closed before it was fsynced")
	}
	for _, in := range w.callSitesIn(fn, "syncDir") {
		c := callOf(in)
		okDir := false
		if call, ok := c.Args[0].(*ssa.Call); ok && w.calleeName(&call.Call) == "path/filepath.Dir" && w.path(call.Call.Args[0]) == "p:f.finalPath" {
			okDir = true
		}
		r.check(okDir && fl.Before(in).Must("ok:Rename"), rule, "Close:syncDir", w.instrPos(in), "directory of the final path fsynced after the rename", "the directory fsync does not follow the rename of the final path's directory: the publish is not durable")
	}
	for i, ret := range fl.Returns() {
		if !allNil(retVals(w, ret, 0)) {
			continue
		}
		f := fl.Before(ret)
		r.check(f.Must("ok:Rename") && f.Must("ok:syncDir"), rule, fmt.Sprintf("Close:return-nil#%d", i), w.instrPos(ret), "nil only after rename-ok and directory fsync-ok", "Close reports success without a completed rename + directory fsync: the engine would acknowledge rows that a power loss discards")
	}
	// published is monotone: its only store is the constant true, in Close itself,
	// after the durable publish. (A store of a computed value, or from a deferred
	// closure, can clear it again: a later Abort would then delete a published file.)
	nPub := 0
	for _, fa := range w.fieldAccesses("renameOnCloseFile") {
		if !fa.Write || fa.Field != "published" || fa.InInit {
			continue
		}
		nPub++
		b, isC := constBool(fa.Val)
		if fa.Fn != fn || !isC || !b {
			r.bad(rule, "published:store@"+w.name(fa.Fn), w.instrPos(fa.Instr), "published is written with "+w.path(fa.Val)+" in "+w.name(fa.Fn)+": it must only ever be set to true by Close after the durable publish — a value that can become false again lets Abort (or a redundant Close) remove a file whose Close already succeeded")
			continue
		}
		f := fl.Before(fa.Instr)
		r.check(f.Must("ok:Rename") && f.Must("ok:syncDir"), rule, "Close:published=true", w.instrPos(fa.Instr), "published only after the durable publish", "published is set before the publish is durable: a later Abort would leave a half-published file")
	}
	if nPub == 0 {
		r.bad(rule, "Close:published=true", w.pos(fn.Pos()), "published is never set: Abort after a successful Close deletes the published file")
	}
	// syncDir
	if sd := fnOrUndecided(w, r, rule, "syncDir"); sd != nil {
		sfl := newFlow(w, sd, namedCalls(w, fsCalls))
		nSync := len(w.callSitesIn(sd, "(*os.File).Sync"))
		okAll := nSync > 0
		for _, ret := range sfl.Returns() {
			f := sfl.Before(ret)
			vs := retVals(w, ret, 0)
			fromSyncOrOpen := false
			for _, v := range vs {
				p := w.path(v)
				if strings.Contains(p, "(*os.File).Sync") || strings.Contains(p, "os.Open") {
					fromSyncOrOpen = true
				}
			}
			if !fromSyncOrOpen && !f.Must("ok:Sync") {
				okAll = false
			}
		}
		r.check(okAll, rule, "syncDir:reports-fsync-failure", w.pos(sd.Pos()), "a failed directory fsync is returned", "syncDir can return without having fsynced the directory successfully")
	}
}

func c15R2(w *World, r *Report, rule string) {
	r.rule(rule, "exclusive creation: both os.OpenFile calls in CreateFile carry O_CREATE|O_EXCL; the .dat reservation precedes the .tmp create; a failure after the reservation removes it before returning or redrawing", 5)
	fn := fnOrUndecided(w, r, rule, "FileSystemDataStore.CreateFile")
	if fn == nil {
		return
	}
	oCreate, ok1 := osConst(w, "O_CREATE")
	oExcl, ok2 := osConst(w, "O_EXCL")
	if !ok1 || !ok2 {
		r.undecided(rule, "os-constants", "-", "cannot resolve os.O_CREATE/O_EXCL")
		return
	}
	var reserve, temp *ssa.Call
	for _, in := range w.callSitesIn(fn, "os.OpenFile") {
		c := in.(*ssa.Call)
		sc := strConstsOf(w, c.Call.Args[0])
		kind := "?"
		switch {
		case sc[".dat"] && !sc[".tmp"]:
			kind = "final"
			reserve = c
		case sc[".tmp"] && !sc[".dat"]:
			kind = "temp"
			temp = c
		}
		flags, isConst := c.Call.Args[1].(*ssa.Const)
		okFlags := false
		if isConst && flags.Value != nil {
			if v, ok := constant.Int64Val(flags.Value); ok {
				okFlags = v&oCreate != 0 && v&oExcl != 0
			}
		}
		r.check(okFlags && kind != "?", rule, "CreateFile:open("+kind+")-flags", w.instrPos(in), "O_CREATE|O_EXCL", "os.OpenFile for the "+kind+" path is not an exclusive create: a colliding name draw would truncate or share an existing file")
	}
	if reserve == nil || temp == nil {
		r.undecided(rule, "CreateFile:opens", w.pos(fn.Pos()), "could not identify both the .dat reservation and the .tmp create")
		return
	}
	finalPath := reserve.Call.Args[0]
	cl := &Classifier{
		CallEdge: func(call ssa.Value, outcome string) *Event {
			c, ok := call.(*ssa.Call)
			if !ok {
				return nil
			}
			switch {
			case c == reserve && outcome == "ok":
				return &Event{Must: []string{"reserved"}, May: []string{"reservationHeld"}}
			case c == temp && outcome == "ok":
				return (&Event{Must: []string{"tempOpen"}}).kill("reservationHeld")
			}
			return nil
		},
		Call: func(site ssa.Instruction, c *ssa.CallCommon) *Event {
			if w.calleeName(c) == "os.Remove" && c.Args[0] == finalPath {
				return (&Event{}).kill("reservationHeld")
			}
			return nil
		},
	}
	fl := newFlow(w, fn, cl)
	r.check(fl.Before(temp).Must("reserved"), rule, "CreateFile:reserve-before-temp", w.instrPos(temp), "final path reserved before the temp file is created", "the temp file is created before the final path is reserved: Close's rename could overwrite a committed file")
	// a reservation is never left behind on a failure exit or a redraw
	n := 0
	for _, ret := range fl.Returns() {
		f := fl.Before(ret)
		if allNil(retVals(w, ret, 0)) {
			n++
			r.check(!f.May("reservationHeld"), rule, fmt.Sprintf("CreateFile:failure-return#%d", n), w.instrPos(ret), "no reservation left behind", "CreateFile can fail while leaving its 0-byte reservation in place with no writer to publish or remove it")
		}
	}
	// redraw edges: back to the draw call
	bad := ""
	eachInstr(fn, func(in ssa.Instruction) {
		if c, ok := in.(*ssa.Call); ok && strings.HasPrefix(w.calleeName(&c.Call), "dyn:") && strings.Contains(w.calleeName(&c.Call), "draw") {
			if f := fl.Before(in); f != nil && f.May("reservationHeld") {
				bad = w.instrPos(in)
			}
		}
	})
	r.check(bad == "", rule, "CreateFile:redraw-releases-reservation", w.pos(fn.Pos()), "a redraw never leaves the previous reservation behind", "the name-draw loop can redraw while the previous attempt's reservation still exists (at "+bad+")")
}

func c15R3(w *World, r *Report, rule string) {
	r.rule(rule, "scan visibility: the directory scan yields a file only on the .dat-suffix edge and after readFileMetadata succeeded; the temp suffix is a different constant", 2)
	var it *ssa.Function
	for _, fn := range w.Funcs {
		if fn.Parent() != nil && w.name(fn.Parent()) == "FileSystemDataStore.GetMaybeFilesForQuery" {
			it = fn
		}
	}
	if it == nil {
		r.undecided(rule, "anchor:scan", "-", "directory scan iterator not found")
		return
	}
	cl := &Classifier{CallEdge: func(call ssa.Value, outcome string) *Event {
		c, ok := call.(*ssa.Call)
		if !ok {
			return nil
		}
		switch w.calleeName(&c.Call) {
		case "strings.HasSuffix":
			if k, ok := c.Call.Args[1].(*ssa.Const); ok && k.Value != nil && constant.StringVal(k.Value) == ".dat" && outcome == "true" {
				return ev("isdat")
			}
		case "FileSystemDataStore.readFileMetadata":
			if outcome == "ok" {
				return ev("parsed")
			}
		}
		return nil
	}}
	fl := newFlow(w, it, cl)
	n := 0
	eachInstr(it, func(in ssa.Instruction) {
		c, ok := in.(*ssa.Call)
		if !ok || w.calleeName(&c.Call) != "dyn:p:yield" {
			return
		}
		if !isNilConst(c.Call.Args[1]) {
			return // an error yield
		}
		n++
		f := fl.Before(in)
		r.check(f.Must("isdat") && f.Must("parsed"), rule, fmt.Sprintf("scan:yield#%d", n), w.instrPos(in), "only parsed .dat files are yielded", fmt.Sprintf("the scan can yield an entry with .dat-suffix=%v footer-parsed=%v: reservations, temp files or partial files become visible to queries", f.Must("isdat"), f.Must("parsed")))
	})
	if n == 0 {
		r.undecided(rule, "scan:yield", w.pos(it.Pos()), "no file yield found")
	}
	// readFileMetadata returns metadata only from ReadFileMetadata-ok
	if rf := w.fn("FileSystemDataStore.readFileMetadata"); rf != nil {
		rfl := newFlow(w, rf, namedCalls(w, map[string]string{"ReadFileMetadata": "parse"}))
		okc := true
		for _, ret := range rfl.Returns() {
			if !allNil(retVals(w, ret, 0)) && !rfl.Before(ret).Must("ok:parse") {
				okc = false
			}
		}
		r.check(okc, rule, "readFileMetadata:metadata-only-after-parse", w.pos(rf.Pos()), "metadata only from a verified footer", "readFileMetadata can return metadata without a successful ReadFileMetadata")
	}
}

// string functions through which "pointer minus trailing .dat" may be derived
// without touching anything but the end of the string
var suffixAnchoredStringFn = map[string]bool{
	"strings.TrimSuffix": true, "strings.CutSuffix": true, "strings.HasSuffix": true, "strings.Clone": true,
}

func c15R4(w *World, r *Report, rule string) {
	r.rule(rule, "tombstone/abort remove every artifact: TombstoneFile removes the pointer's path on every path and the derived .tmp whenever the pointer ends in .dat; Abort removes temp and reservation unless published", 3)
	if fn := fnOrUndecided(w, r, rule, "FileSystemDataStore.TombstoneFile"); fn != nil {
		unanchored, unanchoredAt := "", ""
		cl := &Classifier{
			Call: func(site ssa.Instruction, c *ssa.CallCommon) *Event {
				if w.calleeName(c) != "os.Remove" {
					return nil
				}
				if w.path(c.Args[0]) == "p:filePointerBytes" {
					return ev("rm:final")
				}
				sc := strConstsOf(w, c.Args[0])
				if sc[".tmp"] && sc[".dat"] {
					// the temp sibling is the pointer with its *trailing* ".dat"
					// swapped for ".tmp" (CreateFile builds both from one base):
					// a derivation through a string function that is not anchored
					// at the end (Replace, ReplaceAll, Trim/TrimRight cutsets,
					// Split, Index…) rewrites a ".dat" elsewhere in the path — a
					// root directory named "x.dat.d" — and removes the wrong file
					for k := range sc {
						if strings.HasPrefix(k, "call:strings.") && !suffixAnchoredStringFn[strings.TrimPrefix(k, "call:")] {
							unanchored = strings.TrimPrefix(k, "call:")
							unanchoredAt = w.instrPos(site)
							return nil
						}
					}
					return ev("rm:temp", "tempHandled")
				}
				return nil
			},
			CallEdge: func(call ssa.Value, outcome string) *Event {
				if c, ok := call.(*ssa.Call); ok && (w.calleeName(&c.Call) == "strings.HasSuffix" || w.calleeName(&c.Call) == "strings.CutSuffix") && outcome == "false" {
					if k, ok := c.Call.Args[1].(*ssa.Const); ok && k.Value != nil && constant.StringVal(k.Value) == ".dat" {
						return ev("tempHandled")
					}
				}
				return nil
			},
		}
		fl := newFlow(w, fn, cl)
		if unanchored != "" {
			r.check(false, rule, "TombstoneFile:temp-path-suffix-anchored", unanchoredAt, "", "the temp path TombstoneFile removes is derived from the pointer through "+unanchored+", which is not anchored at the end of the string: a \".dat\" elsewhere in the path (a root directory whose name contains it) is rewritten instead and the real .tmp of an unfinished write survives")
		} else {
			r.check(true, rule, "TombstoneFile:temp-path-suffix-anchored", w.pos(fn.Pos()), "the removed temp path swaps only the trailing .dat (TrimSuffix/CutSuffix/filepath functions)", "")
		}
		for i, ret := range fl.Returns() {
			f := fl.Before(ret)
			r.check(f.Must("rm:final") && f.Must("tempHandled"), rule, fmt.Sprintf("TombstoneFile:return#%d", i), w.instrPos(ret), "final path and derived temp removed", fmt.Sprintf("TombstoneFile can return with final-removed=%v temp-handled=%v: artifacts of an aborted write survive", f.Must("rm:final"), f.Must("tempHandled")))
		}
	}
	if fn := fnOrUndecided(w, r, rule, "renameOnCloseFile.Abort"); fn != nil {
		cl := &Classifier{
			Call: func(site ssa.Instruction, c *ssa.CallCommon) *Event {
				if w.calleeName(c) != "os.Remove" {
					return nil
				}
				switch w.path(c.Args[0]) {
				case "p:f.tempPath":
					return ev("rm:temp")
				case "p:f.finalPath":
					return ev("rm:final")
				}
				return nil
			},
			Cond: func(c Cond, taken bool) *Event {
				if c.Op == "truth" && taken && w.path(c.X) == "p:f.published" {
					return ev("rm:temp", "rm:final") // nothing to discard: the file is published
				}
				return nil
			},
		}
		fl := newFlow(w, fn, cl)
		for i, ret := range fl.Returns() {
			f := fl.Before(ret)
			r.check(f.Must("rm:temp") && f.Must("rm:final"), rule, fmt.Sprintf("Abort:return#%d", i), w.instrPos(ret), "temp and reservation removed unless published", "Abort can return leaving the temp file or the reservation behind")
		}
	}
}

// c15R5: durability of removals (F2).
func c15R5(w *World, r *Report) {
	const rule = "C15.R5"
	// Only the commit point is held to this: TombstoneFile's physical removal
	// is explicitly left to the implementation by the DataStore contract, and
	// every tombstoned file is by then unreferenced (or already unlinked by Update).
	for _, name := range []string{"FileSystemDataStore.Update"} {
		fn := w.fn(name)
		if fn == nil {
			r.undecided(rule, "anchor:"+name, "-", name+" not found")
			continue
		}
		rms := w.callSitesIn(fn, "os.Remove")
		if len(rms) == 0 {
			continue
		}
		dropped := false
		for _, in := range rms {
			if v, ok := in.(ssa.Value); ok {
				if refs := v.Referrers(); refs == nil || len(*refs) == 0 {
					dropped = true
				}
			}
		}
		if name == "FileSystemDataStore.Update" {
			r.check(!dropped, rule, name+":remove-error-dropped", w.instrPos(rms[0]), "removal errors are reported", name+" discards the error of os.Remove and returns nil: a source that could not be removed stays visible next to the merged output")
		}
		fl := newFlow(w, fn, namedCalls(w, map[string]string{"os.Remove": "Remove", "syncDir": "syncDir"}))
		okc := true
		for _, ret := range fl.Returns() {
			f := fl.Before(ret)
			if f.May("call:Remove") && !f.Must("call:syncDir") {
				okc = false
			}
		}
		// a failure must not be reported after part of the commit took effect:
		// merge reads any Update error as "nothing committed" and removes its
		// outputs — with some sources already unlinked that loses their rows
		partial := ""
		for _, ret := range fl.Returns() {
			f := fl.Before(ret)
			if len(ret.Results) == 0 {
				continue
			}
			if !allNil(retVals(w, ret, len(ret.Results)-1)) && f.May("call:Remove") {
				partial = w.instrPos(ret)
			}
		}
		r.check(partial == "", rule, name+":error-after-partial-removal", w.pos(fn.Pos()), "no error is returned once a source may have been unlinked", name+" can return an error (at "+partial+") after it may already have unlinked some sources: merge treats an Update error as 'nothing committed' and tombstones the merge outputs, which are by then the only copy of those sources' rows")
		r.check(okc, rule, name+":no-dir-sync", w.pos(fn.Pos()), "removals followed by a directory fsync", name+" unlinks published files without fsyncing the directory afterwards: after a power loss the removed sources reappear next to the merged output (every row twice)")
	}
}

func c16R1(w *World, r *Report) {
	const rule = "C16.R1"
	r.rule(rule, "pointer identity: CreateFile returns the reserved .dat path as pointer and gives the writer that path and the .tmp sibling; OpenFile opens exactly the pointer; the draw loop redraws only on IsExist", 5)
	fn := fnOrUndecided(w, r, rule, "FileSystemDataStore.CreateFile")
	if fn == nil {
		return
	}
	var reserveArg, tempArg ssa.Value
	for _, in := range w.callSitesIn(fn, "os.OpenFile") {
		c := in.(*ssa.Call)
		sc := strConstsOf(w, c.Call.Args[0])
		if sc[".dat"] && !sc[".tmp"] {
			reserveArg = c.Call.Args[0]
		}
		if sc[".tmp"] && !sc[".dat"] {
			tempArg = c.Call.Args[0]
		}
	}
	cl := &Classifier{
		CallEdge: func(call ssa.Value, outcome string) *Event {
			c, ok := call.(*ssa.Call)
			if !ok {
				return nil
			}
			switch w.calleeName(&c.Call) {
			case "os.OpenFile", "(*os.File).Close":
				if outcome == "fail" {
					return &Event{May: []string{"err"}}
				}
			case "os.IsExist":
				if outcome == "true" {
					return (&Event{}).kill("err")
				}
			}
			return nil
		},
	}
	fl := newFlow(w, fn, cl)
	n := 0
	for _, ret := range fl.Returns() {
		if allNil(retVals(w, ret, 0)) {
			continue
		}
		n++
		ptr := retOperand(ret, 1)
		okPtr := false
		if cv, ok := ptr.(*ssa.Convert); ok && cv.X == reserveArg && reserveArg != nil {
			okPtr = true
		}
		r.check(okPtr, rule, "CreateFile:pointer=reserved-path", w.instrPos(ret), "pointer is the reserved final path", "the pointer CreateFile returns is not the path it reserved: the MetaStore would reference a name that Close never publishes")
	}
	if n == 0 {
		r.undecided(rule, "CreateFile:success-return", w.pos(fn.Pos()), "no success return found")
	}
	for _, fa := range w.fieldAccesses("renameOnCloseFile") {
		if fa.Fn != fn || !fa.Write {
			continue
		}
		switch fa.Field {
		case "finalPath":
			r.check(fa.Val == reserveArg, rule, "CreateFile:writer.finalPath", w.instrPos(fa.Instr), "writer publishes to the reserved path", "the writer's finalPath is not the reserved path")
		case "tempPath":
			r.check(fa.Val == tempArg, rule, "CreateFile:writer.tempPath", w.instrPos(fa.Instr), "writer writes to the exclusive temp file", "the writer's tempPath is not the temp file that was created")
		}
	}
	// redraw only on IsExist: at the draw call no non-IsExist error may be pending
	bad := ""
	eachInstr(fn, func(in ssa.Instruction) {
		if c, ok := in.(*ssa.Call); ok && strings.HasPrefix(w.calleeName(&c.Call), "dyn:") && strings.Contains(w.calleeName(&c.Call), "draw") {
			if f := fl.Before(in); f != nil && f.May("err") {
				bad = w.instrPos(in)
			}
		}
	})
	r.check(bad == "", rule, "CreateFile:redraw-only-on-IsExist", w.pos(fn.Pos()), "other errors are returned, not retried", "the draw loop retries after an error other than IsExist: a persistent failure (permissions, full disk) spins through all attempts and masks the cause")
	if of := fnOrUndecided(w, r, rule, "FileSystemDataStore.OpenFile"); of != nil {
		n := 0
		for _, in := range w.callSitesIn(of, "os.Open", "os.OpenFile") {
			n++
			c := callOf(in)
			r.check(w.path(c.Args[0]) == "p:filePointerBytes", rule, "OpenFile:opens-pointer", w.instrPos(in), "opens exactly the pointer", "OpenFile opens "+w.path(c.Args[0])+" instead of the pointer it was given")
		}
		if n == 0 {
			r.undecided(rule, "OpenFile:opens-pointer", w.pos(of.Pos()), "no os.Open call")
		}
	}
}
