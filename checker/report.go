package main

// Obligations, verdicts, evidence files, known findings and replay files.

import (
	"encoding/json"
	"fmt"
	"os"
	"path/filepath"
	"sort"
	"strings"
	"time"
)

type Verdict string

const (
	OK        Verdict = "ok"
	Violation Verdict = "violation"
	Undecided Verdict = "undecided"
	Known     Verdict = "known-finding"
)

// Obligation is one rule instance evaluated at one construct.
type Obligation struct {
	Rule      string  `json:"rule"`      // e.g. C05.R3
	Construct string  `json:"construct"` // stable key: function + semantic site, never a line number
	Site      string  `json:"site"`      // file:line for humans
	Verdict   Verdict `json:"verdict"`
	Detail    string  `json:"detail,omitempty"`
	Trivial   bool    `json:"-"`
}

type Report struct {
	Property string
	w        *World
	Obs      []Obligation
	floors   map[string]int // rule -> minimum instances confirmed by hand
	counts   map[string]int
	notes    []string
	rules    map[string]string // rule id -> one line description
}

func newReport(prop string, w *World) *Report {
	return &Report{Property: prop, w: w, floors: map[string]int{}, counts: map[string]int{}, rules: map[string]string{}}
}

func (r *Report) rule(id, desc string, floor int) {
	r.rules[id] = desc
	r.floors[id] = floor
}

func (r *Report) add(rule, construct, site string, v Verdict, detail string) {
	r.Obs = append(r.Obs, Obligation{Rule: rule, Construct: construct, Site: site, Verdict: v, Detail: detail})
	r.counts[rule]++
}

func (r *Report) ok(rule, construct, site, detail string) { r.add(rule, construct, site, OK, detail) }
func (r *Report) bad(rule, construct, site, detail string) {
	r.add(rule, construct, site, Violation, detail)
}
func (r *Report) undecided(rule, construct, site, detail string) {
	r.add(rule, construct, site, Undecided, detail)
}

// check records ok or violation.
func (r *Report) check(cond bool, rule, construct, site, okDetail, badDetail string) bool {
	if cond {
		r.ok(rule, construct, site, okDetail)
	} else {
		r.bad(rule, construct, site, badDetail)
	}
	return cond
}

func (r *Report) note(format string, a ...any) { r.notes = append(r.notes, fmt.Sprintf(format, a...)) }

// finishFloors adds a violation for each rule that matched fewer instances
// than were confirmed by hand on the reference tree (a rule matching nothing
// passes vacuously forever).
func (r *Report) finishFloors() {
	var ids []string
	for id := range r.floors {
		ids = append(ids, id)
	}
	sort.Strings(ids)
	for _, id := range ids {
		// the floor guards against a rule that passes because it no longer
		// matches anything; moving code between functions legitimately changes the
		// count, so the alarm is raised when fewer than half of the confirmed
		// instances (at least one) are matched
		need := (r.floors[id] + 1) / 2
		if need < 1 {
			need = 1
		}
		if r.counts[id] < need {
			r.add(id, "floor:"+id, "-", Undecided,
				fmt.Sprintf("rule matched %d instance(s), fewer than half of the %d confirmed by hand: its anchors no longer resolve, so nothing was decided", r.counts[id], r.floors[id]))
		}
	}
}

// ---------------------------------------------------------------------------

type KnownFinding struct {
	Property  string `json:"property"`
	Rule      string `json:"rule"`
	Construct string `json:"construct"`
	Status    string `json:"status"` // "known" | "fixed"
	Commit    string `json:"commit,omitempty"`
	WhatFails string `json:"what_fails"`
}

func loadKnown(path string) ([]KnownFinding, error) {
	data, err := os.ReadFile(path)
	if err != nil {
		if os.IsNotExist(err) {
			return nil, nil
		}
		return nil, err
	}
	var out struct {
		Findings []KnownFinding `json:"findings"`
	}
	if err := json.Unmarshal(data, &out); err != nil {
		return nil, err
	}
	return out.Findings, nil
}

// applyKnown downgrades violations that are listed (status known) to Known.
func (r *Report) applyKnown(known []KnownFinding) {
	for i := range r.Obs {
		o := &r.Obs[i]
		if o.Verdict != Violation {
			continue
		}
		for _, k := range known {
			if k.Status == "known" && k.Property == r.Property && k.Rule == o.Rule && k.Construct == o.Construct {
				o.Verdict = Known
				o.Detail = k.WhatFails + " [" + o.Detail + "]"
			}
		}
	}
}

type evidence struct {
	PropertyID  string         `json:"property_id"`
	Tier        string         `json:"tier"`
	Seed        int            `json:"seed"`
	Level       string         `json:"level"`
	Coverage    map[string]any `json:"coverage"`
	Assumptions []string       `json:"assumptions"`
	WallS       float64        `json:"wall_s"`
	Violations  int            `json:"violations"`
}

type propMeta struct {
	explanation string
	notDecided  string
	assumptions []string
}

func (r *Report) emit(verifDir, tier string, seed int, start time.Time, meta propMeta, extra map[string]any) int {
	r.finishFloors()
	known, err := loadKnown(filepath.Join(verifDir, "known-findings.json"))
	if err != nil {
		r.add(r.Property+".known", "known-findings.json", "-", Undecided, "cannot read known findings: "+err.Error())
	}
	r.applyKnown(known)

	sort.SliceStable(r.Obs, func(i, j int) bool {
		if r.Obs[i].Rule != r.Obs[j].Rule {
			return ruleLess(r.Obs[i].Rule, r.Obs[j].Rule)
		}
		return r.Obs[i].Construct < r.Obs[j].Construct
	})

	nOK, nBad, nUnd, nKnown := 0, 0, 0, 0
	distinct := map[string]bool{}
	for _, o := range r.Obs {
		switch o.Verdict {
		case OK:
			nOK++
		case Violation:
			nBad++
		case Undecided:
			nUnd++
		case Known:
			nKnown++
		}
		distinct[o.Rule+"|"+o.Construct] = true
	}

	replayDir := filepath.Join(verifDir, "evidence", "replay")
	os.MkdirAll(replayDir, 0o755)
	// stale replay files of this property
	if old, _ := filepath.Glob(filepath.Join(replayDir, r.Property+"-*.json")); old != nil {
		for _, f := range old {
			os.Remove(f)
		}
	}

	// stdout summary per rule
	var ruleIDs []string
	for id := range r.rules {
		ruleIDs = append(ruleIDs, id)
	}
	sort.Slice(ruleIDs, func(i, j int) bool { return ruleLess(ruleIDs[i], ruleIDs[j]) })
	perRule := map[string]map[string]int{}
	for _, o := range r.Obs {
		if perRule[o.Rule] == nil {
			perRule[o.Rule] = map[string]int{}
		}
		perRule[o.Rule][string(o.Verdict)]++
	}
	fmt.Printf("bscheck property=%s tier=%s repo=%s functions=%d blocks=%d instrs=%d\n", r.Property, tier, r.w.Dir, len(r.w.Funcs), r.w.Blocks, r.w.Instrs)
	var ruleSummaries []map[string]any
	for _, id := range ruleIDs {
		c := perRule[id]
		fmt.Printf("  %-8s instances=%-3d ok=%-3d violation=%d undecided=%d known=%d floor=%d  %s\n", id, r.counts[id], c["ok"], c["violation"], c["undecided"], c["known-finding"], r.floors[id], r.rules[id])
		ruleSummaries = append(ruleSummaries, map[string]any{"rule": id, "what": r.rules[id], "instances": r.counts[id], "floor": r.floors[id], "ok": c["ok"], "violation": c["violation"], "undecided": c["undecided"], "known": c["known-finding"]})
	}
	k := 0
	var knownLines []string
	for _, o := range r.Obs {
		switch o.Verdict {
		case Known:
			line := fmt.Sprintf("KNOWN-FINDING: property=%s %s %s at %s: %s", r.Property, o.Rule, o.Construct, o.Site, o.Detail)
			fmt.Println(line)
			knownLines = append(knownLines, line)
		case Violation, Undecided:
			k++
			path := filepath.Join(replayDir, fmt.Sprintf("%s-%d.json", r.Property, k))
			rp := map[string]any{"property": r.Property, "rule": o.Rule, "construct": o.Construct, "site": o.Site, "kind": string(o.Verdict), "detail": o.Detail, "what_rule_requires": r.rules[o.Rule]}
			data, _ := json.MarshalIndent(rp, "", " ")
			os.WriteFile(path, data, 0o644)
			fmt.Printf("  %s %s %s at %s: %s\n", strings.ToUpper(string(o.Verdict)), o.Rule, o.Construct, o.Site, o.Detail)
			fmt.Printf("VIOLATION property=%s replay=%s\n", r.Property, path)
		}
	}

	// samples: a spread of actual obligations
	var samples []any
	seenRule := map[string]int{}
	for _, o := range r.Obs {
		if seenRule[o.Rule] >= 3 && o.Verdict == OK {
			continue
		}
		seenRule[o.Rule]++
		samples = append(samples, o)
		if len(samples) >= 60 {
			break
		}
	}
	cov := map[string]any{
		"explanation":         meta.explanation,
		"not_decided":         meta.notDecided,
		"obligations":         len(r.Obs),
		"discharged":          nOK + nKnown,
		"evaluations":         len(r.Obs),
		"distinct_nontrivial": len(distinct),
		"rule":                "one obligation per (rule, construct): a construct is a call site, branch edge, return, field access, table row or abstract state selected by resolved callee / field object / access path in /repo's current source; all are non-trivial (each is a site where the rule could fail); distinct = distinct (rule, construct) keys",
		"samples":             samples,
		"rules":               ruleSummaries,
		"undecided":           nUnd,
		"known_findings":      knownLines,
		"checker_cmd":         strings.Join(os.Args, " "),
		"trusted_base":        []string{"go/types type checker", "golang.org/x/tools go/ssa v0.50.0 SSA construction", "the rule tables in /verif/checker/rules_*.go (hand-confirmed against the tree)"},
		"analysed": map[string]any{
			"repo": r.w.Dir, "package": modulePath, "functions": len(r.w.Funcs), "basic_blocks": r.w.Blocks, "ssa_instructions": r.w.Instrs, "build_tags": r.w.Tags,
		},
		"notes":      r.notes,
		"exhaustive": true,
	}
	for k, v := range extra {
		cov[k] = v
	}
	evd := evidence{
		PropertyID: r.Property, Tier: tier, Seed: seed, Level: "other", Coverage: cov,
		Assumptions: append([]string{
			"panic edges are ignored (a panic is a different failure)",
			"no reflection/unsafe outside the audited uses; function values in struct fields resolved by VTA",
			"goroutine interleavings are never enumerated: concurrency clauses rest on ownership and lock discipline",
		}, meta.assumptions...),
		WallS: time.Since(start).Seconds(), Violations: nBad + nUnd,
	}
	data, _ := json.MarshalIndent(evd, "", " ")
	os.MkdirAll(filepath.Join(verifDir, "evidence"), 0o755)
	if err := os.WriteFile(filepath.Join(verifDir, "evidence", r.Property+".json"), data, 0o644); err != nil {
		fmt.Println("cannot write evidence:", err)
		return 2
	}
	fmt.Printf("result property=%s obligations=%d ok=%d known=%d violation=%d undecided=%d wall=%.1fs\n", r.Property, len(r.Obs), nOK, nKnown, nBad, nUnd, time.Since(start).Seconds())
	if nBad+nUnd > 0 {
		return 1
	}
	return 0
}

func ruleLess(a, b string) bool {
	pa, ra := splitRule(a)
	pb, rb := splitRule(b)
	if pa != pb {
		return pa < pb
	}
	if ra != rb {
		return ra < rb
	}
	return a < b
}

func splitRule(s string) (string, int) {
	i := strings.Index(s, ".R")
	if i < 0 {
		return s, 0
	}
	n := 0
	fmt.Sscanf(s[i+2:], "%d", &n)
	return s[:i], n
}
