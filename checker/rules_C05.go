package main

import (
	"fmt"
	"go/token"
	"go/types"
	"strings"

	"golang.org/x/tools/go/ssa"
)

// C05 — every accepted batch is answered exactly once.
//
// The waiter (a batch's doneChan) is followed through its whole life as an
// exactly-once obligation: accepted ⇒ enqueued ⇒ processed ⇒ answered or
// parked ⇒ forwarded ⇒ queued or answered ⇒ handled ⇒ answered.

func init() { register("C05", checkC05) }

const (
	fieldIngestChan = "BloomSearchEngine.ingestChan"
	fieldFlushChan  = "BloomSearchEngine.flushChan"
	fieldIngestDone = "BloomSearchEngine.ingestDone"
)

func checkC05(w *World, r *Report, tier string) propMeta {
	c05R1(w, r)
	c05R2(w, r, "C05.R2", "BloomSearchEngine.ingestWorker", fieldIngestChan, "BloomSearchEngine.processIngestRequest", 2, 2)
	c05R3(w, r)
	c05R4(w, r)
	c05R5(w, r)
	c05R2(w, r, "C05.R6", "BloomSearchEngine.flushWorker", fieldFlushChan, "BloomSearchEngine.handleFlush", 2, 3)
	c05R7(w, r)
	c05R8(w, r)
	c05R9(w, r)
	c05R10(w, r, "C05.R10")
	c05R11(w, r)
	return propMeta{
		explanation: "Exactly-once answering of a batch's done channel, decided as a chain of path rules over the SSA control-flow graphs of IngestRows/Flush, ingestWorker, processIngestRequest, flushBufferedData, triggerFlush, flushWorker, handleFlush, sendToChannelsWithContext and Stop: a counter domain {0,1,>=2} for answer events on every path to every return, must/may event sets for hand-offs, lock and flag facts for the accept-after-stop window. Each rule is a necessary condition of the property; together they cover every return of every function on the waiter's path, including exits no test injects a fault into.",
		notDecided:  "Liveness beyond these structural conditions (that a blocked send eventually completes), delivery to an abandoned unbuffered channel (documented backpressure), and goroutine interleavings themselves: the concurrency clauses rest on single-owner channels and lock discipline, not on enumerated schedules.",
	}
}

// selRecvValueIndex returns the Extract index of the value received by select state k.
func selRecvValueIndex(sel *ssa.Select, k int) int {
	idx := 2
	for i, st := range sel.States {
		if st.Dir == types.RecvOnly {
			if i == k {
				return idx
			}
			idx++
		}
	}
	return -1
}

// valueFromSelectRecv reports whether v is the value received on a select case
// whose channel is the given field.
func (w *World) valueFromSelectRecv(v ssa.Value, chanField string) bool {
	ext, ok := v.(*ssa.Extract)
	if !ok {
		return false
	}
	sel, ok := ext.Tuple.(*ssa.Select)
	if !ok {
		return false
	}
	for k, st := range sel.States {
		if st.Dir == types.RecvOnly && w.chanKey(st.Chan) == chanField && selRecvValueIndex(sel, k) == ext.Index {
			return true
		}
	}
	return false
}

func c05R1(w *World, r *Report) {
	const rule = "C05.R1"
	r.rule(rule, "accept ⇒ enqueued: a function that sends on ingestChan returns nil (or waits on its own done channel) only on the edge where the select chose that send; the request carries the caller's done channel", 4)
	fnSet := map[*ssa.Function]bool{}
	for _, op := range w.chanOps() {
		if op.Key == fieldIngestChan && (op.Kind == "selsend" || op.Kind == "send") {
			fnSet[op.Fn] = true
		}
	}
	for fn := range fnSet {
		cl := &Classifier{
			SelCase: func(sel *ssa.Select, k int) *Event {
				if dir, key, _ := w.selState(sel, k); dir == "send" && key == fieldIngestChan {
					return ev("enq")
				}
				return nil
			},
		}
		fl := newFlow(w, fn, cl)
		for _, ret := range fl.Returns() {
			v := retOperand(ret, len(ret.Results)-1)
			if v == nil {
				continue
			}
			facts := fl.Before(ret)
			key := fmt.Sprintf("%s:return(%s)", w.name(fn), retKind(w, v))
			switch {
			case isNilConst(v):
				r.check(facts.Must("enq"), rule, key, w.instrPos(ret), "nil return only after the ingestChan send was chosen", "returns nil on a path where the request was not enqueued: the caller is told 'accepted' but no one will answer")
			case isRecv(v):
				r.check(facts.Must("enq"), rule, key, w.instrPos(ret), "waits on its done channel only after enqueueing", "waits for an answer to a request that was never enqueued")
			default:
				r.ok(rule, key, w.instrPos(ret), "non-nil return (not an acceptance)")
			}
		}
		// the request sent carries the caller's done channel (or the channel the function itself waits on)
		for _, fa := range w.fieldAccesses("ingestRequest") {
			if fa.Fn != fn || !fa.Write || fa.Field != "doneChan" {
				continue
			}
			p := w.path(fa.Val)
			key := w.name(fn) + ":ingestRequest.doneChan="
			if p == "p:doneChan" {
				r.ok(rule, key+"param", w.instrPos(fa.Instr), "request carries the caller's done channel")
			} else if _, ok := fa.Val.(*ssa.MakeChan); ok || strings.HasPrefix(p, "makechan@") {
				// the function must itself receive from that channel
				recv := false
				eachInstr(fn, func(in ssa.Instruction) {
					if u, ok := in.(*ssa.UnOp); ok && u.Op == token.ARROW && w.path(u.X) == p {
						recv = true
					}
				})
				r.check(recv, rule, key+"own", w.instrPos(fa.Instr), "request carries the channel this function waits on", "request carries a private channel nobody receives from")
			} else {
				r.bad(rule, key+"other", w.instrPos(fa.Instr), "request's done channel is "+p+", not the caller's")
			}
		}
	}
}

func isRecv(v ssa.Value) bool {
	u, ok := v.(*ssa.UnOp)
	return ok && u.Op == token.ARROW
}

func retKind(w *World, v ssa.Value) string {
	switch {
	case isNilConst(v):
		return "nil"
	case isRecv(v):
		return "<-chan"
	}
	p := w.path(v)
	if i := strings.Index(p, "@"); i >= 0 {
		p = p[:i]
	}
	return p
}

// c05R2: from each receive on chanField in worker, the request is handed to
// handler synchronously before the next receive or return.
func c05R2(w *World, r *Report, rule, worker, chanField, handler string, reqArg, floor int) {
	r.rule(rule, "dequeued ⇒ handled: every value received from "+chanField+" in "+worker+" is passed to "+handler+" by a plain call before the next select or return", floor)
	fn := fnOrUndecided(w, r, rule, worker)
	if fn == nil {
		return
	}
	cl := &Classifier{
		SelCase: func(sel *ssa.Select, k int) *Event {
			if dir, key, _ := w.selState(sel, k); dir == "recv" && key == chanField {
				return ev("pending")
			}
			return nil
		},
		Call: func(site ssa.Instruction, c *ssa.CallCommon) *Event {
			if _, isCall := site.(*ssa.Call); isCall && w.isCallTo(c, handler) && reqArg < len(c.Args) && w.valueFromSelectRecv(c.Args[reqArg], chanField) {
				return (&Event{Must: []string{"handled"}}).kill("pending")
			}
			return nil
		},
	}
	fl := newFlow(w, fn, cl)
	// obligations: each recv case (instance), checked at every subsequent select/return
	nRecv := 0
	eachInstr(fn, func(in ssa.Instruction) {
		if sel, ok := in.(*ssa.Select); ok {
			for k := range sel.States {
				if dir, key, _ := w.selState(sel, k); dir == "recv" && key == chanField {
					nRecv++
				}
			}
		}
	})
	bad := 0
	eachInstr(fn, func(in ssa.Instruction) {
		switch in.(type) {
		case *ssa.Select, *ssa.Return:
			f := fl.Before(in)
			if f != nil && f.May("pending") {
				bad++
				r.bad(rule, fmt.Sprintf("%s:unhandled-before:%T", worker, in), w.instrPos(in), "a request received from "+chanField+" can reach this point without being passed to "+handler+": it would be dropped unanswered")
			}
		}
	})
	for i := 0; i < nRecv; i++ {
		if bad == 0 {
			r.ok(rule, fmt.Sprintf("%s:recv#%d", worker, i), w.pos(fn.Pos()), "received request reaches "+handler+" on every path")
		}
	}
	// receivers of the channel are only this worker
	for _, op := range w.chanOps() {
		if op.Key == chanField && (op.Kind == "recv" || op.Kind == "selrecv" || op.Kind == "range") {
			r.check(w.name(outermost(op.Fn)) == worker && op.Fn == fn, rule, "receiver:"+w.name(op.Fn), w.instrPos(op.Instr), "only the worker receives", "a second receiver of "+chanField+" takes requests the worker will never handle")
		}
	}
}

const waiterPath = "p:req.doneChan"

// appendedElems returns the element values of `append(s, e1, e2...)` when the
// variadic part is a literal list.
func appendedElems(call *ssa.Call) (slice ssa.Value, elems []ssa.Value, ok bool) {
	b, isB := call.Call.Value.(*ssa.Builtin)
	if !isB || b.Name() != "append" || len(call.Call.Args) != 2 {
		return nil, nil, false
	}
	slice = call.Call.Args[0]
	sl, isSlice := call.Call.Args[1].(*ssa.Slice)
	if !isSlice {
		return slice, nil, false
	}
	arr, isAlloc := sl.X.(*ssa.Alloc)
	if !isAlloc {
		return slice, nil, false
	}
	for _, ref := range *arr.Referrers() {
		if ia, ok := ref.(*ssa.IndexAddr); ok {
			for _, r2 := range *ia.Referrers() {
				if st, ok := r2.(*ssa.Store); ok && st.Addr == ia {
					elems = append(elems, st.Val)
				}
			}
		}
	}
	return slice, elems, true
}

func c05R3(w *World, r *Report) {
	const rule = "C05.R3"
	r.rule(rule, "processIngestRequest answers or parks the request's waiter exactly once on every path to every return", 8)
	fn := fnOrUndecided(w, r, rule, "BloomSearchEngine.processIngestRequest")
	if fn == nil {
		return
	}
	unknownUse := ""
	cl := &Classifier{
		Call: func(site ssa.Instruction, c *ssa.CallCommon) *Event {
			if w.isCallTo(c, "sendOptionalWithContext") && len(c.Args) == 3 && w.path(c.Args[1]) == waiterPath {
				return ev("answered").count("waiter")
			}
			// any other call that receives the waiter is outside what this rule understands
			for _, a := range c.Args {
				if w.path(a) == waiterPath && !w.isCallTo(c, "sendOptionalWithContext") {
					unknownUse = w.calleeName(c) + " at " + w.instrPos(site)
				}
			}
			return nil
		},
		Instr: func(in ssa.Instruction) *Event {
			st, ok := in.(*ssa.Store)
			if !ok || w.path(st.Addr) != "p:doneChans" {
				return nil
			}
			if call, ok := st.Val.(*ssa.Call); ok {
				if base, elems, ok := appendedElems(call); ok && w.path(base) == "*p:doneChans" {
					n := 0
					for _, e := range elems {
						if w.path(e) == waiterPath {
							n++
						}
					}
					if n == 1 {
						return ev("parked").count("waiter")
					}
					if n > 1 {
						return &Event{Count: map[string]uint8{"waiter": c2}}
					}
				}
			}
			return nil
		},
	}
	fl := newFlow(w, fn, cl)
	if unknownUse != "" {
		r.undecided(rule, "processIngestRequest:waiter-escapes", w.pos(fn.Pos()), "the waiter is passed to "+unknownUse+", which this rule does not model")
	}
	for i, ret := range fl.Returns() {
		f := fl.Before(ret)
		c := f.Cnt("waiter")
		how := "answered"
		if f.May("parked") {
			how = "parked"
			if f.May("answered") {
				how = "answered|parked"
			}
		}
		r.check(c == c1, rule, fmt.Sprintf("processIngestRequest:return#%d(%s)", i, how), w.instrPos(ret),
			"waiter count {1}", "waiter answered/parked "+cntString(c)+" times on paths to this return (must be exactly once): "+map[bool]string{true: "a path drops the batch silently", false: "a path answers twice"}[c&c0 != 0])
	}
}

func c05R4(w *World, r *Report) {
	const rule = "C05.R4"
	r.rule(rule, "parked ⇒ forwarded: flushBufferedData skips triggerFlush only when no waiter is parked, hands triggerFlush a full copy of the parked waiters, and resets the list only after the hand-off", 4)
	fn := fnOrUndecided(w, r, rule, "BloomSearchEngine.flushBufferedData")
	if fn == nil {
		return
	}
	var trigger *ssa.Call
	var triggers []*ssa.Call
	freshSlice := func(v ssa.Value) bool {
		out := map[string]bool{}
		sliceOrigins(w, v, map[ssa.Value]bool{}, out)
		delete(out, "fresh")
		return len(out) == 0
	}
	cl := &Classifier{
		Instr: func(in ssa.Instruction) *Event {
			// the live list replaced by a freshly allocated (or nil) one: the handed-off array is no longer the actor's
			if st, ok := in.(*ssa.Store); ok && w.path(st.Addr) == "p:doneChans" && freshSlice(st.Val) {
				return (&Event{}).kill("handedLive")
			}
			return nil
		},
		Call: func(site ssa.Instruction, c *ssa.CallCommon) *Event {
			if w.isCallTo(c, "BloomSearchEngine.triggerFlush") {
				if call, ok := site.(*ssa.Call); ok {
					trigger = call
					seen := false
					for _, t := range triggers {
						if t == call {
							seen = true
						}
					}
					if !seen {
						triggers = append(triggers, call)
					}
					e := ev("forwarded")
					if !freshSlice(c.Args[len(c.Args)-1]) {
						e.May = append(e.May, "handedLive")
					}
					return e
				}
			}
			if b, ok := c.Value.(*ssa.Builtin); ok && b.Name() == "copy" && len(c.Args) == 2 && w.path(c.Args[1]) == "*p:doneChans" {
				return ev("copied:" + w.path(c.Args[0]))
			}
			return nil
		},
		Cond: func(c Cond, taken bool) *Event {
			if c.Op == "==" && taken || c.Op == "!=" && !taken {
				if isLenOf(w, c.X, "*p:doneChans") && isZero(c.Y) {
					return ev("nowaiters")
				}
			}
			return nil
		},
	}
	fl := newFlow(w, fn, cl)
	for i, ret := range fl.Returns() {
		f := fl.Before(ret)
		r.check(f.Must("forwarded") || f.Must("nowaiters"), rule, fmt.Sprintf("flushBufferedData:return#%d", i), w.instrPos(ret),
			"returns only after the hand-off or with no waiter parked", "can return without calling triggerFlush while waiters are parked: those batches are never answered")
	}
	for i, ret := range fl.Returns() {
		f := fl.Before(ret)
		r.check(!f.May("handedLive"), rule, fmt.Sprintf("flushBufferedData:no-shared-waiter-array#%d", i), w.instrPos(ret),
			"the queued request's waiter list shares no array with the actor's live list", "the waiter slice handed to triggerFlush can share its backing array with the actor's live list after this return (the list is handed over uncopied and then resliced or kept): the next accepted batch's append overwrites a queued waiter — one waiter is never answered and another is answered twice")
	}
	if trigger == nil {
		r.undecided(rule, "flushBufferedData:triggerFlush", w.pos(fn.Pos()), "no plain call of triggerFlush found")
		return
	}
	// the waiter slice handed over is the whole list (every hand-off site)
	for ti, tr := range triggers {
		if tr == trigger {
			continue
		}
		a := tr.Call.Args[len(tr.Call.Args)-1]
		pp := w.path(a)
		okc := pp == "*p:doneChans"
		if ms, ok := a.(*ssa.MakeSlice); ok && fl.Before(tr).Must("copied:"+pp) {
			lv := w.leaves(ms.Len)
			okc = len(lv) == 1 && lv["len(*p:doneChans)"]
		}
		r.check(okc, rule, fmt.Sprintf("flushBufferedData:handoff-arg#%d", ti+2), w.instrPos(tr), "waiters handed over whole", "triggerFlush receives "+pp+", which is not provably the whole list of parked waiters")
	}
	arg := trigger.Call.Args[len(trigger.Call.Args)-1]
	p := w.path(arg)
	f := fl.Before(trigger)
	okCopy := false
	why := ""
	switch {
	case p == "*p:doneChans":
		okCopy, why = true, "the list itself"
	case f.Must("copied:" + p):
		if ms, ok := arg.(*ssa.MakeSlice); ok {
			lv := w.leaves(ms.Len)
			okCopy = len(lv) == 1 && lv["len(*p:doneChans)"]
			why = "make(len(*doneChans)) + copy"
		}
	default:
		if call, ok := arg.(*ssa.Call); ok {
			if w.isCallTo(&call.Call, "slices.Clone[[]chan error,chan error]", "slices.Clone") && w.path(call.Call.Args[0]) == "*p:doneChans" {
				okCopy, why = true, "slices.Clone"
			}
			if base, _, _ := appendedElems(call); base != nil {
				if sl, ok := call.Call.Args[1].(*ssa.UnOp); ok && w.path(sl) == "*p:doneChans" {
					okCopy, why = true, "append(nil, list...)"
				}
			}
		}
	}
	r.check(okCopy, rule, "flushBufferedData:handoff-arg", w.instrPos(trigger), "waiters handed over: "+why, "triggerFlush receives "+p+", which is not provably a full copy of the parked waiters")
	// resets only after the hand-off
	n := 0
	eachInstr(fn, func(in ssa.Instruction) {
		if st, ok := in.(*ssa.Store); ok && w.path(st.Addr) == "p:doneChans" {
			n++
			ff := fl.Before(st)
			r.check(ff != nil && ff.Must("forwarded"), rule, fmt.Sprintf("flushBufferedData:reset#%d", n), w.instrPos(st), "list reset after the hand-off", "the parked waiters are overwritten before they were handed to triggerFlush")
		}
	})
}

func isZero(v ssa.Value) bool {
	n, ok := constInt(v)
	return ok && n == 0
}

func isLenOf(w *World, v ssa.Value, path string) bool {
	c, ok := v.(*ssa.Call)
	if !ok {
		return false
	}
	b, ok := c.Call.Value.(*ssa.Builtin)
	return ok && b.Name() == "len" && w.path(c.Call.Args[0]) == path
}

func c05R5(w *World, r *Report) {
	const rule = "C05.R5"
	r.rule(rule, "triggerFlush either queues a flushRequest carrying exactly the waiters it was given, or answers them with a non-nil error — exactly one of the two on every path", 3)
	fn := fnOrUndecided(w, r, rule, "BloomSearchEngine.triggerFlush")
	if fn == nil {
		return
	}
	cl := &Classifier{
		SelCase: func(sel *ssa.Select, k int) *Event {
			if dir, key, _ := w.selState(sel, k); dir == "send" && key == fieldFlushChan {
				return ev("queued").count("waiters")
			}
			return nil
		},
		Call: func(site ssa.Instruction, c *ssa.CallCommon) *Event {
			if w.isCallTo(c, "sendToChannelsWithContext") && len(c.Args) == 3 && w.path(c.Args[1]) == "p:doneChans" {
				return ev("answered").count("waiters")
			}
			return nil
		},
	}
	fl := newFlow(w, fn, cl)
	for i, ret := range fl.Returns() {
		f := fl.Before(ret)
		c := f.Cnt("waiters")
		r.check(c == c1, rule, fmt.Sprintf("triggerFlush:return#%d", i), w.instrPos(ret), "waiters queued or answered exactly once", "waiters handled "+cntString(c)+" times on paths to this return")
	}
	// the queued request carries the parameter
	found := false
	for _, fa := range w.fieldAccesses("flushRequest") {
		if fa.Fn == fn && fa.Write && fa.Field == "doneChans" {
			found = true
			r.check(w.path(fa.Val) == "p:doneChans", rule, "triggerFlush:flushRequest.doneChans", w.instrPos(fa.Instr), "request carries the given waiters", "queued request's waiters are "+w.path(fa.Val)+", not the ones handed in")
		}
	}
	if !found {
		r.undecided(rule, "triggerFlush:flushRequest.doneChans", w.pos(fn.Pos()), "no store to flushRequest.doneChans found")
	}
	// error answers are non-nil
	for _, in := range w.callSitesIn(fn, "sendToChannelsWithContext") {
		c := callOf(in)
		r.check(w.provablyNonNilError(c.Args[2]), rule, "triggerFlush:abandon-answer", w.instrPos(in), "abandonment answer is a non-nil error", "waiters of an abandoned flush are answered with a value that may be nil (a false 'durable')")
	}
}

func c05R7(w *World, r *Report) {
	const rule = "C05.R7"
	r.rule(rule, "handleFlush answers the request's waiters exactly once on every path to every return", 10)
	fn := fnOrUndecided(w, r, rule, "BloomSearchEngine.handleFlush")
	if fn == nil {
		return
	}
	var fl *Flow
	cl := &Classifier{}
	cl.Call = func(site ssa.Instruction, c *ssa.CallCommon) *Event {
		if w.isCallTo(c, "sendToChannelsWithContext") && len(c.Args) == 3 && w.path(c.Args[1]) == "p:flushReq.doneChans" {
			return ev("answered").count("waiters")
		}
		if callee := w.staticCallee(c); callee != nil && callee.Parent() != nil && outermost(callee) == fn && fl != nil {
			return fl.Summary(callee)
		}
		return nil
	}
	fl = &Flow{w: w, fn: fn, cl: cl, sums: map[*ssa.Function]*Event{}, stack: map[*ssa.Function]bool{}}
	fl.run()
	for i, ret := range fl.Returns() {
		f := fl.Before(ret)
		c := f.Cnt("waiters")
		r.check(c == c1, rule, fmt.Sprintf("handleFlush:return#%d", i), w.instrPos(ret), "waiters answered exactly once", "waiters answered "+cntString(c)+" times on paths to this return (must be exactly once)")
	}
}

// deliveries lists everything in fn that can hand a value to one of the
// channels of its `channels` parameter: calls of the blocking helpers
// (sendOptionalWithContext / sendWithContext) and raw sends (plain or in a select).
type deliveryOp struct {
	in       ssa.Instruction
	ch       ssa.Value
	val      ssa.Value
	blocking bool // a call of one of the context-bounded blocking helpers
}

func deliveries(w *World, fn *ssa.Function) []deliveryOp {
	var out []deliveryOp
	eachInstr(fn, func(in ssa.Instruction) {
		switch x := in.(type) {
		case *ssa.Call:
			if w.isCallTo(&x.Call, "sendOptionalWithContext", "sendWithContext") && len(x.Call.Args) == 3 {
				out = append(out, deliveryOp{in, x.Call.Args[1], x.Call.Args[2], true})
			}
		case *ssa.Send:
			out = append(out, deliveryOp{in, x.Chan, x.X, false})
		case *ssa.Select:
			for _, st := range x.States {
				if st.Dir == types.SendOnly {
					out = append(out, deliveryOp{in, st.Chan, st.Send, false})
				}
			}
		}
	})
	return out
}

// channelsElemIndex: v is channels[i] (possibly through a type change) for the
// function's `channels` parameter; returns i.
func channelsElemIndex(w *World, v ssa.Value) ssa.Value {
	if ct, ok := v.(*ssa.ChangeType); ok {
		v = ct.X
	}
	u, ok := v.(*ssa.UnOp)
	if !ok {
		return nil
	}
	ia, ok := u.X.(*ssa.IndexAddr)
	if !ok || w.path(ia.X) != "p:channels" {
		return nil
	}
	return ia.Index
}

func c05R8(w *World, r *Report) {
	const rule = "C05.R8"
	r.rule(rule, "sendToChannelsWithContext attempts every waiter: one delivery per element through a context-bounded blocking helper, in a loop over the whole slice whose only exit is exhaustion", 1)
	for _, fn := range w.fnsByBase("sendToChannelsWithContext") {
		ops := deliveries(w, fn)
		if len(ops) != 1 || !ops[0].blocking {
			r.bad(rule, w.name(fn)+":loop", w.pos(fn.Pos()), fmt.Sprintf("expected exactly one delivery per waiter through sendOptionalWithContext/sendWithContext, found %d delivery operation(s) (raw or non-blocking sends included): a waiter can be answered twice, skipped, or answered out of turn", len(ops)))
			continue
		}
		site := ops[0].in
		scc := loopOf(site.Block())
		if len(scc) < 2 {
			r.bad(rule, w.name(fn)+":loop", w.instrPos(site), "the delivery call is not inside a loop over the waiters")
			continue
		}
		var exits []*ssa.BasicBlock
		for b := range scc {
			for _, s := range b.Succs {
				if !scc[s] && !isPanicBlock(s) {
					exits = append(exits, b)
				}
			}
		}
		header := loopHeader(scc)
		ok := len(exits) == 1 && exits[0] == header
		r.check(ok, rule, w.name(fn)+":loop-exits", w.instrPos(site), "single exit at the loop header", fmt.Sprintf("the delivery loop has %d exit(s) besides range exhaustion: a failed send to one waiter would leave the rest unanswered", len(exits)))
		r.check(w.path(ops[0].val) == "p:value", rule, w.name(fn)+":value", w.instrPos(site), "every waiter receives the given value", "waiters receive "+w.path(ops[0].val)+" instead of the given value")
	}
}

// loopOf returns the strongly connected component containing b (blocks that
// reach b and are reachable from b), or nil when b is not in a loop.
func loopOf(b *ssa.BasicBlock) map[*ssa.BasicBlock]bool {
	fwd := reachableFrom(b)
	scc := map[*ssa.BasicBlock]bool{}
	for x := range fwd {
		if x == b || reachableFrom(x)[b] {
			scc[x] = true
		}
	}
	inLoop := false
	for _, s := range b.Succs {
		if reachableFrom(s)[b] {
			inLoop = true
		}
	}
	if !inLoop {
		return nil
	}
	return scc
}

func loopHeader(scc map[*ssa.BasicBlock]bool) *ssa.BasicBlock {
	var h *ssa.BasicBlock
	for b := range scc {
		for _, p := range b.Preds {
			if !scc[p] {
				if h != nil && h != b {
					return nil
				}
				h = b
			}
		}
	}
	return h
}

func c05R9(w *World, r *Report) {
	const rule = "C05.R9"
	r.rule(rule, "drains: ingestWorker returns only after a flushBufferedData that follows its last processIngestRequest; flushWorker returns only after observing ingestDone and an empty flushChan; only ingestWorker's entry defer closes ingestDone", 3)
	if fn := fnOrUndecided(w, r, rule, "BloomSearchEngine.ingestWorker"); fn != nil {
		cl := &Classifier{Call: func(site ssa.Instruction, c *ssa.CallCommon) *Event {
			if _, ok := site.(*ssa.Call); !ok {
				return nil
			}
			if w.isCallTo(c, "BloomSearchEngine.flushBufferedData") {
				return ev("flushed")
			}
			if w.isCallTo(c, "BloomSearchEngine.processIngestRequest") {
				return (&Event{}).kill("flushed")
			}
			return nil
		}, SelCase: func(sel *ssa.Select, k int) *Event {
			if k == -1 {
				for i := range sel.States {
					if dir, key, _ := w.selState(sel, i); dir == "recv" && key == fieldIngestChan {
						return ev("ingestEmpty")
					}
				}
			}
			if dir, key, _ := w.selState(sel, k); dir == "recv" && key == fieldIngestChan {
				return (&Event{}).kill("ingestEmpty")
			}
			return nil
		}}
		fl := newFlow(w, fn, cl)
		for i, ret := range fl.Returns() {
			f := fl.Before(ret)
			r.check(f.Must("flushed") && f.Must("ingestEmpty"), rule, fmt.Sprintf("ingestWorker:return#%d", i), w.instrPos(ret), "exit only after observing ingestChan empty and forwarding the remaining buffer and waiters", "the ingest actor can exit with accepted requests still queued, or buffered rows / parked waiters not handed to the flush worker")
		}
	}
	if fn := fnOrUndecided(w, r, rule, "BloomSearchEngine.flushWorker"); fn != nil {
		cl := &Classifier{SelCase: func(sel *ssa.Select, k int) *Event {
			if k == -1 {
				for i := range sel.States {
					if dir, key, _ := w.selState(sel, i); dir == "recv" && key == fieldFlushChan {
						return ev("flushEmpty")
					}
				}
				return nil
			}
			if dir, key, _ := w.selState(sel, k); dir == "recv" && key == fieldIngestDone {
				return ev("ingestDone")
			}
			return nil
		}}
		fl := newFlow(w, fn, cl)
		for i, ret := range fl.Returns() {
			f := fl.Before(ret)
			r.check(f.Must("ingestDone") && f.Must("flushEmpty"), rule, fmt.Sprintf("flushWorker:return#%d", i), w.instrPos(ret), "exit only after ingestDone and an empty queue", "the flush worker can exit while the ingest actor may still enqueue, or with requests still queued: their waiters are never answered")
		}
	}
	nClose := 0
	for _, op := range w.chanOps() {
		if op.Key != fieldIngestDone || op.Kind != "close" {
			continue
		}
		nClose++
		parent := op.Fn.Parent()
		okc := parent != nil && w.name(parent) == "BloomSearchEngine.ingestWorker"
		if okc {
			// the closure must be deferred in the entry block of ingestWorker
			deferred := false
			for _, in := range parent.Blocks[0].Instrs {
				if d, ok := in.(*ssa.Defer); ok && w.staticCallee(&d.Call) == op.Fn {
					deferred = true
				}
			}
			okc = deferred
		}
		r.check(okc, rule, "close(ingestDone):"+w.name(op.Fn), w.instrPos(op.Instr), "closed by the ingest actor's entry defer", "ingestDone is closed somewhere other than the ingest actor's exit: the flush worker could stop draining early")
	}
	if nClose == 0 {
		r.bad(rule, "close(ingestDone):none", "-", "ingestDone is never closed: the flush worker cannot finish its drain")
	}
}

// c05R10: no accept after stop.
func c05R10(w *World, r *Report, rule string) {
	r.rule(rule, "no accept after stop: every ingestChan send holds stateMu (read) and follows a read of stopped == false under that lock; Stop sets stopped under the write lock before cancelling the engine context", 4)
	n := 0
	fnSet := map[*ssa.Function]bool{}
	for _, op := range w.chanOps() {
		if op.Key == fieldIngestChan && (op.Kind == "selsend" || op.Kind == "send") {
			fnSet[op.Fn] = true
		}
	}
	for fn := range fnSet {
		cl := lockClassifier(w, []string{"notstopped"}, func(c Cond, taken bool) *Event {
			if c.Op == "truth" && !taken && strings.HasSuffix(w.path(c.X), ".stopped") {
				return ev("notstopped")
			}
			return nil
		})
		fl := newFlow(w, fn, cl)
		eachInstr(fn, func(in ssa.Instruction) {
			sel, ok := in.(*ssa.Select)
			if !ok {
				return
			}
			for k := range sel.States {
				if dir, key, _ := w.selState(sel, k); dir == "send" && key == fieldIngestChan {
					n++
					f := fl.Before(sel)
					held := f.MustPrefix("rheld:") || f.MustPrefix("held:")
					r.check(held && f.Must("notstopped"), rule, w.name(fn)+":send(ingestChan)", w.instrPos(sel), "send under stateMu after stopped was read false", fmt.Sprintf("ingestChan send with lock-held=%v, stopped-checked=%v: a request can land after Stop's drain and never be answered", held, f.Must("notstopped")))
				}
			}
		})
	}
	if fn := fnOrUndecided(w, r, rule, "BloomSearchEngine.Stop"); fn != nil {
		cl := lockClassifier(w, nil, nil)
		inner := cl.Instr
		cl.Instr = func(in ssa.Instruction) *Event {
			var e *Event
			if inner != nil {
				e = inner(in)
			}
			if st, ok := in.(*ssa.Store); ok {
				if o, f, _, ok := w.structFieldOf(st.Addr); ok && o == "BloomSearchEngine" && f == "stopped" {
					if b, isC := constBool(st.Val); isC && b {
						return mergeEvents(e, ev("stoppedSet"))
					}
				}
			}
			return e
		}
		fl := newFlow(w, fn, cl)
		nStore, nCancel := 0, 0
		eachInstr(fn, func(in ssa.Instruction) {
			if st, ok := in.(*ssa.Store); ok {
				if o, f, _, ok := w.structFieldOf(st.Addr); ok && o == "BloomSearchEngine" && f == "stopped" {
					nStore++
					ff := fl.Before(in)
					r.check(ff.MustPrefix("held:"), rule, "Stop:store(stopped)", w.instrPos(in), "stopped set under the write lock", "stopped is set without the write lock: a concurrent IngestRows can pass its check and enqueue after the drain")
				}
			}
			if c, ok := in.(*ssa.Call); ok && strings.HasSuffix(w.calleeName(&c.Call), ".cancel") && strings.HasPrefix(w.calleeName(&c.Call), "dyn:") {
				nCancel++
				ff := fl.Before(in)
				r.check(ff.Must("stoppedSet"), rule, "Stop:cancel()", w.instrPos(in), "engine context cancelled after stopped was set", "the engine context is cancelled before stopped is set: the ingest actor can finish its drain while requests are still being accepted")
			}
		})
		if nStore == 0 || nCancel == 0 {
			r.undecided(rule, "Stop:anchors", w.pos(fn.Pos()), fmt.Sprintf("stores to stopped: %d, cancel calls: %d", nStore, nCancel))
		}
	}
	_ = n
}

func c05R11(w *World, r *Report) {
	const rule = "C05.R11"
	r.rule(rule, "the queue always has a consumer: every `return nil` of Stop follows either a read of started == true or the start of both workers on that path; workers are only started by Start/Stop", 3)
	fn := fnOrUndecided(w, r, rule, "BloomSearchEngine.Stop")
	if fn == nil {
		return
	}
	cl := &Classifier{
		Cond: func(c Cond, taken bool) *Event {
			if c.Op == "truth" && taken && strings.HasSuffix(w.path(c.X), ".started") {
				return ev("haveIngestWorker", "haveFlushWorker")
			}
			return nil
		},
		Instr: func(in ssa.Instruction) *Event {
			if g, ok := in.(*ssa.Go); ok {
				if w.isCallTo(&g.Call, "BloomSearchEngine.ingestWorker") {
					return ev("haveIngestWorker")
				}
				if w.isCallTo(&g.Call, "BloomSearchEngine.flushWorker") {
					return ev("haveFlushWorker")
				}
			}
			return nil
		},
	}
	fl := newFlow(w, fn, cl)
	for i, ret := range fl.Returns() {
		v := retOperand(ret, 0)
		if !isNilConst(v) {
			continue
		}
		f := fl.Before(ret)
		r.check(f.Must("haveIngestWorker") && f.Must("haveFlushWorker"), rule, fmt.Sprintf("Stop:return-nil#%d", i), w.instrPos(ret),
			"graceful return only with both workers known to exist", "Stop can return nil on an engine whose workers were never started: batches accepted before Start are never answered")
	}
	for _, s := range w.goSites() {
		g := s.Instr.(*ssa.Go)
		for _, wk := range []string{"BloomSearchEngine.ingestWorker", "BloomSearchEngine.flushWorker"} {
			if w.isCallTo(&g.Call, wk) {
				host := w.name(s.Fn)
				r.check(host == "BloomSearchEngine.Start" || host == "BloomSearchEngine.Stop", rule, "go:"+wk+"@"+host, w.instrPos(g), "worker started by the lifecycle functions", "a worker goroutine is started outside Start/Stop: two consumers break the single-owner argument")
			}
		}
	}
}

// provablyNonNilError: fmt.Errorf / errors.New results (or phis of such).
func (w *World) provablyNonNilError(v ssa.Value) bool {
	switch x := v.(type) {
	case *ssa.Call:
		if w.isCallTo(&x.Call, "fmt.Errorf", "errors.New") {
			return true
		}
	case *ssa.MakeInterface:
		return true
	case *ssa.Phi:
		for _, e := range x.Edges {
			if !w.provablyNonNilError(e) {
				return false
			}
		}
		return len(x.Edges) > 0
	}
	return false
}

// nonNilAt: v is provably non-nil at instruction use — by construction, or
// because use is dominated by the non-nil edge of a test of v against nil.
func (w *World) nonNilAt(v ssa.Value, use ssa.Instruction) bool {
	if w.provablyNonNilError(v) {
		return true
	}
	refs := v.Referrers()
	if refs == nil {
		return false
	}
	for _, ref := range *refs {
		b, ok := ref.(*ssa.BinOp)
		if !ok || (b.Op != token.NEQ && b.Op != token.EQL) || !(isNilConst(b.X) || isNilConst(b.Y)) {
			continue
		}
		for _, r2 := range *b.Referrers() {
			ifi, ok := r2.(*ssa.If)
			if !ok {
				continue
			}
			idx := 0
			if b.Op == token.EQL {
				idx = 1
			}
			s := ifi.Block().Succs[idx]
			if len(s.Preds) == 1 && s.Dominates(use.Block()) {
				return true
			}
		}
	}
	return false
}
