#!/bin/sh
# Usage: ./check.sh <property-id> [quick|thorough]
# Builds the checker if needed, then decides the property on /repo's current
# working tree (static analysis only: nothing from /repo is executed).
set -u
PROP="$1"; TIER="${2:-${VERIF_TIER:-quick}}"
HERE="$(cd "$(dirname "$0")" && pwd)"
export PATH=/opt/veriftools/go1.26.8/bin:$PATH
export GOTOOLCHAIN=local GOFLAGS=-mod=mod GOPROXY=off GOSUMDB=off GOWORK=off
unset GOARCH GOOS
BIN="$HERE/bin/bscheck"
need=0
[ -x "$BIN" ] || need=1
if [ $need -eq 0 ] && [ -n "$(find "$HERE/checker" -newer "$BIN" -name '*.go' 2>/dev/null | head -1)" ]; then need=1; fi
if [ $need -eq 1 ]; then
  mkdir -p "$HERE/bin"
  (cd "$HERE/checker" && go build -o "$BIN" .) || { echo "bscheck: build failed"; echo "VIOLATION property=$PROP replay=$HERE/evidence/replay/$PROP-build.json"; exit 1; }
fi
BSCHECK_VERIF="${BSCHECK_VERIF:-$HERE}" exec "$BIN" -property "$PROP" -tier "$TIER"
